/* vcommon.h - shared plumbing of all harness executables: PRNG, argument
 * parsing, JSON-lines protocol to the vcheck driver, signature sets, forked
 * case isolation with a watchdog. */
#ifndef VCOMMON_H
#define VCOMMON_H

#include <errno.h>
#include <inttypes.h>
#include <stdarg.h>
#include <stdbool.h>
#include <stddef.h>
#include <stdint.h>
#include <stdio.h>
#include <stdlib.h>
#include <string.h>
#include <unistd.h>

/* ---- PRNG (splitmix64) ---- */
typedef struct { uint64_t s; } vrng;
static inline uint64_t vmix(uint64_t x)
{
    x += 0x9E3779B97F4A7C15ULL;
    uint64_t z = x;
    z = (z ^ (z >> 30)) * 0xBF58476D1CE4E5B9ULL;
    z = (z ^ (z >> 27)) * 0x94D049BB133111EBULL;
    return z ^ (z >> 31);
}
static inline uint64_t vrnd(vrng *r) { r->s += 0x9E3779B97F4A7C15ULL; uint64_t z = r->s;
    z = (z ^ (z >> 30)) * 0xBF58476D1CE4E5B9ULL; z = (z ^ (z >> 27)) * 0x94D049BB133111EBULL;
    return z ^ (z >> 31); }
static inline uint32_t vrnd_n(vrng *r, uint32_t n) { return n ? (uint32_t)(vrnd(r) % n) : 0; }
static inline int vrnd_range(vrng *r, int lo, int hi) { return lo + (int)vrnd_n(r, (uint32_t)(hi - lo + 1)); }
static inline bool vrnd_p(vrng *r, int pct) { return (int)vrnd_n(r, 100) < pct; }
static inline uint64_t vsub_seed(uint64_t seed, uint64_t worker, uint64_t idx)
{ return vmix(vmix(vmix(seed) ^ (worker * 0x51ED27ULL + 17)) ^ (idx * 0x9E3779B1ULL + 3)); }

/* ---- arguments ---- */
struct vargs {
    const char *prop;
    uint64_t seed;
    int worker, nworkers;
    long cases;
    bool thorough;
    const char *dir;
    long only;          /* -1: all; else run only this case index */
    bool verbose;
    const char *mode;   /* free-form --mode */
    int argc; char **argv;
};
extern struct vargs va;
void vparse_args(int argc, char **argv);
const char *varg_extra(const char *name, const char *dflt);

/* ---- output protocol ---- */
void vjson_escape(FILE *f, const char *s);
/* emit a violation; key discriminates the failing site, detail_fmt is a JSON
 * fragment (already valid JSON object members without braces) or NULL */
void vviol(long case_idx, const char *rule, const char *key, const char *detail_json,
           const char *msg_fmt, ...) __attribute__((format(printf, 5, 6)));
void vsample(const char *json_obj);         /* json_obj is a complete JSON value */
void vinconclusive(const char *why_fmt, ...) __attribute__((format(printf, 1, 2)));
void vobs(const char *name, long delta);
void vobs_max(const char *name, long v);
void vclass(const char *name);               /* count per-class occurrences */
void vsig(uint64_t h);                       /* add a distinct non-trivial signature */
void vsig_str(const char *s);
uint64_t vhash_str(const char *s);
uint64_t vhash_mem(const void *p, size_t n);
void vcase_done(bool nontrivial);
void vsummary(bool final);                   /* flush counters to stdout */
long vviol_count(void);

/* ---- forked case isolation ----
 * run fn(idx, arg) in a forked child with a watchdog (seconds).  The child's
 * counters are flushed by the child itself.  Returns 0 if the child exited 0,
 * else emits an "exit" record (the driver turns it into a violation with a
 * key from the sanitizer log) and returns -1.  cls is a short class label
 * used in the key when no sanitizer log exists. */
typedef void (*vcase_fn)(long idx, void *arg);
int vfork_case(long idx, vcase_fn fn, void *arg, int watchdog_s, const char *cls);
/* true once three forked cases of this worker have reported violations, died or hung: the run is lost, stop burning time */
bool vstop_early(void);
/* checks whose cases are short and which list known findings (crashes that must not end the run) stop on hangs only */
void vstop_early_hangs_only(bool on);

/* misc */
double vnow(void);
void vhex(char *out, const void *p, size_t n, size_t max_bytes);
#define VLOG(...) do { if (va.verbose) { fprintf(stderr, __VA_ARGS__); fputc('\n', stderr); } } while (0)

#endif
