/* evloop.c - the documented event-loop protocol as an executable reactor.
 *   C04: no lost wake-ups (bounded form): whenever no XCM descriptor is
 *        readable, no XCM timer is armed and the resolver is idle, every
 *        goal of every agent must be complete; blocking calls return.
 *   C16: readiness is sound: probes at globally quiescent points.
 *
 * Agents follow the protocol strictly: declare interest with xcm_await, act
 * only when poll() reports the xcm fd readable (plus the single speculative
 * attempt the documentation allows after creating a socket), and call
 * xcm_finish when woken without an operation to perform. */
#include "veng.h"
#include "vdns.h"
#include "vnet.h"

#include <linux/sockios.h>
#include <poll.h>
#include <signal.h>
#include <sys/ioctl.h>
#include <sys/stat.h>
#include "vctl.h"

enum { PROP_C04, PROP_C16 };
static int prop;
static long cur_case;
static char ctx[700];

enum role { R_CLIENT, R_ACCEPTED, R_SERVER };
struct agent {
    struct vep ep; enum role role; bool alive; struct agent *peer;
    int want_send; bool want_recv; bool recv_once; bool send_once;
    bool close_when_done, closed, flush_known;
    int cond_policy;           /* 0 minimal, 1 R|S while sending, 2 always includes R */
    int last_cond; long wakeups, acts;
    bool established_seen;     /* some operation succeeded or finish returned 0 */
    bool failed; int fail_errno;
    int expect_from_peer;      /* messages the peer will send in total (known to the scenario) */
};

struct ecase {
    long idx; uint64_t sub_seed; enum vtp tp;
    int nmsg; bool bidir; int plan_class; bool speculative_start; bool use_dns; int dns_deliver; int dns_after;
    int topology;              /* 0 direct accepting; 1 [no-answer, accepting] sequential; 2 [refusing, accepting] sequential; 3 happy eyeballs v6 no-answer + v4 accepting */
    int size_class; bool blocking_scenario; int blocking_kind;
    bool ctl;                  /* C16: control interface on; control clients attach at the quiescent point */
};

#define MAXA 6
static struct agent ag[MAXA];
static int n_ag;
static vrng rng;

static void eviol(const char *rule, const char *keytail, const char *fmt, ...)
{
    char msg[900]; va_list ap; va_start(ap, fmt); vsnprintf(msg, sizeof msg, fmt, ap); va_end(ap);
    char key[160]; snprintf(key, sizeof key, "%s:%s", rule, keytail);
    vviol(cur_case, rule, key, veng_detail(ctx), "%s; %s", msg, ctx);
}

static int agent_cond(struct agent *a)
{
    if (a->role == R_SERVER) return XCM_SO_ACCEPTABLE;
    int c = 0;
    if (a->want_send > 0) c |= XCM_SO_SENDABLE;
    if (a->want_recv) c |= XCM_SO_RECEIVABLE;
    if (a->cond_policy == 1 && a->want_send > 0) c |= XCM_SO_RECEIVABLE;
    if (a->cond_policy == 2) c |= XCM_SO_RECEIVABLE;
    return c;
}

static uint32_t msg_len(const struct ecase *c, vrng *r)
{
    switch (c->size_class) {
    case 0: return 1 + vrnd_n(r, 64);
    case 1: return 1 + vrnd_n(r, 3000);
    case 2: { static const uint32_t b[] = { 16384, 16385, 32768, 65535, 40000 }; return b[vrnd_n(r, 5)]; }
    default: return vrnd_p(r, 50) ? 1 + vrnd_n(r, 200) : 1 + vrnd_n(r, 65535);
    }
}

static const struct ecase *cur;

static void agent_fail(struct agent *a, int err) { a->failed = true; a->fail_errno = err; a->want_send = 0; a->want_recv = false; }

/* one send attempt; returns 1 ok, 0 EAGAIN, -1 error */
static int a_send(struct agent *a)
{
    struct vep *e = &a->ep;
    uint32_t len = msg_len(cur, &rng);
    unsigned char *buf = malloc(len);
    long ai = veng_att_begin(e, len);
    veng_fill(e->key, e->att[ai].id, buf, len);
    int rc = vx_send(e, buf, len); int se = errno;
    free(buf);
    veng_att_end(e, ai, rc, se);
    if (rc >= 0) {
        a->established_seen = true;
        if (e->bytestream && (uint32_t)rc < len) { /* partial acceptance: the rest is simply not sent (new data next time) */ }
        a->want_send--; return 1;
    }
    if (se == EAGAIN) return 0;
    agent_fail(a, se); return -1;
}

/* returns 1 data, 0 EAGAIN, -1 closed/error */
static int a_recv(struct agent *a)
{
    struct vep *e = &a->ep;
    size_t cap = e->bytestream ? 1 + vrnd_n(&rng, 70000) : 65535;
    unsigned char *buf = malloc(cap);
    int rc = vx_receive(e, buf, cap); int se = errno;
    if (rc > 0) { veng_rx_add(e, buf, rc, cap); a->established_seen = true; }
    free(buf);
    if (rc > 0) return 1;
    if (rc == 0) { e->term = 1; a->want_recv = false; a->want_send = 0; return -1; }
    if (se == EAGAIN) return 0;
    e->term = 2; e->term_errno = se; agent_fail(a, se); return -1;
}

static bool flushed_truth(struct agent *a)
{
    struct vcnt c;
    if (!a->ep.s) return true;
    if (!vx_read_counters(&a->ep, &c)) return true;
    return c.v[1] == c.v[2];     /* from_app_bytes == to_lower_bytes */
}

static struct agent *new_agent(enum role role, enum vtp tp, uint64_t key)
{
    struct agent *a = &ag[n_ag];
    memset(a, 0, sizeof *a);
    veng_ep_init(&a->ep, n_ag, tp, key);
    a->role = role; a->alive = true; a->last_cond = -1;
    n_ag++;
    return a;
}

static void act(struct agent *a)
{
    a->acts++;
    if (a->role == R_SERVER) {
        struct agent *n = NULL;
        if (n_ag >= MAXA) return;
        n = new_agent(R_ACCEPTED, a->ep.tp, vmix(cur->sub_seed ^ (uint64_t)(n_ag * 977)));
        struct xcm_attr_map *aa = xcm_attr_map_create();
        struct vs_scope sc = { .active = true, .nonblocking = true, .api = "xcm_accept_a", .ep = n->ep.id, .plan = &n->ep.plan };
        if (cur->plan_class) { n->ep.plan.eagain_send_pct = n->ep.plan.eagain_recv_pct = cur->plan_class >= 2 ? 20 : 0; n->ep.plan.frag_send_pct = n->ep.plan.frag_recv_pct = (cur->plan_class & 1) ? 50 : 0; }
        vs_enter(&sc);
        n->ep.s = xcm_accept_a(a->ep.s, aa);
        int se = errno;
        vs_leave();
        xcm_attr_map_destroy(aa);
        vs_note("API ep%d xcm_accept_a -> %s e%d", n->ep.id, n->ep.s ? "conn" : "NULL", n->ep.s ? 0 : se);
        if (!n->ep.s) { veng_ep_free(&n->ep); n_ag--; if (se != EAGAIN) vobs("accept_errors", 1); return; }
        n->ep.fd_num = vx_fd(&n->ep);
        /* the accepted side mirrors the client that connected */
        struct agent *cl = NULL; for (int i = 0; i < n_ag - 1; i++) if (ag[i].role == R_CLIENT && !ag[i].peer) { cl = &ag[i]; break; }
        if (cl) { cl->peer = n; n->peer = cl; }
        n->want_recv = true; n->recv_once = vrnd_p(&rng, 50); n->send_once = vrnd_p(&rng, 50);
        n->want_send = cur->bidir ? cur->nmsg : 0;
        n->cond_policy = (int)vrnd_n(&rng, 3);
        n->expect_from_peer = cur->nmsg;
        return;
    }
    bool did = false;
    if (a->want_send > 0) {
        did = true;
        for (int k = 0; k < (a->send_once ? 1 : 64) && a->want_send > 0; k++) if (a_send(a) != 1) break;
    }
    if (a->want_recv && a->alive && !a->failed) {
        did = true;
        for (int k = 0; k < (a->recv_once ? 1 : 256); k++) if (a_recv(a) != 1) break;
    }
    if (!did && !a->failed && a->ep.s) {
        int rc = vx_finish(&a->ep);
        if (rc == 0) { a->established_seen = true; a->flush_known = true; }
        else if (errno != EAGAIN) agent_fail(a, errno);
    }
    if ((a->failed || a->ep.term) && a->ep.s) {
        /* a terminal condition has been reported: the application closes the socket */
        vx_close(&a->ep); a->alive = false; vobs("closed_after_terminal", 1);
        return;
    }
    if (a->want_send == 0 && a->close_when_done && !a->closed && !a->failed && a->ep.s && !a->want_recv) {
        /* the application uses xcm_finish to learn that everything has left XCM, then closes */
        int rc = vx_finish(&a->ep);
        if (rc == 0) { vx_close(&a->ep); a->closed = true; a->alive = false; }
        else if (errno != EAGAIN) agent_fail(a, errno);
    }
}

static long rx_count(struct agent *a) { return a->ep.bytestream ? (long)a->ep.rx_stream_len : a->ep.n_rx; }
static long tx_ok(struct agent *a) { return a->ep.bytestream ? (long)a->ep.bytes_ok : a->ep.n_ok; }

/* what is still owed; fills why */
static bool goals_done(char *why, size_t cap)
{
    why[0] = 0;
    for (int i = 0; i < n_ag; i++) {
        struct agent *a = &ag[i];
        if (a->role == R_SERVER) {
            for (int j = 0; j < n_ag; j++) if (ag[j].role == R_CLIENT && !ag[j].failed && !ag[j].peer && ag[j].ep.s) { snprintf(why, cap, "client ep%d has no accepted counterpart (server never produced the connection)", ag[j].ep.id); return false; }
            continue;
        }
        if (a->failed) continue;
        if (a->want_send > 0) { snprintf(why, cap, "ep%d still has %d messages to send", a->ep.id, a->want_send); return false; }
        if (a->ep.s && !a->closed && !flushed_truth(a)) { snprintf(why, cap, "ep%d has accepted data that has not left XCM (from_app > to_lower)", a->ep.id); return false; }
        if (a->close_when_done && !a->closed && !a->want_recv) { snprintf(why, cap, "ep%d wants to close but xcm_finish has not reported completion", a->ep.id); return false; }
        if (a->peer && !a->peer->failed) {
            struct agent *p = a->peer;
            if (a->want_recv || a->ep.term) {
                if (!a->ep.term && rx_count(a) < tx_ok(p)) { snprintf(why, cap, "ep%d has received %ld of the %ld %s its peer's sends were accepted for", a->ep.id, rx_count(a), tx_ok(p), a->ep.bytestream ? "bytes" : "messages"); return false; }
                if (p->closed && a->want_recv && !a->ep.term) { snprintf(why, cap, "ep%d has not been told that its peer closed", a->ep.id); return false; }
            }
        }
    }
    return true;
}

static void blame(char *buf, size_t cap)
{
    size_t o = 0; buf[0] = 0;
    for (int i = 0; i < n_ag && o + 200 < cap; i++) {
        struct agent *a = &ag[i];
        if (!a->ep.s) continue;
        int fd = a->role == R_SERVER ? -1 : vs_ledger_data_fd(a->ep.id);
        int inq = -1, outq = -1; short rev = 0;
        if (fd >= 0) { ioctl(fd, FIONREAD, &inq); ioctl(fd, SIOCOUTQ, &outq); struct pollfd p = { .fd = fd, .events = POLLIN | POLLOUT }; vs_real_poll(&p, 1, 0); rev = p.revents; }
        struct vcnt c; memset(&c, 0, sizeof c); if (a->role != R_SERVER) vx_read_counters(&a->ep, &c);
        o += (size_t)snprintf(buf + o, cap - o, "[ep%d %s cond=%d rawfd=%d inq=%d outq=%d rawrev=0x%x from_app=%ld to_lower=%ld want_send=%d want_recv=%d term=%d wake=%ld] ",
                              a->ep.id, a->role == R_SERVER ? "server" : a->role == R_CLIENT ? "client" : "accepted", a->last_cond, fd, inq, outq, rev, (long)c.v[1], (long)c.v[2], a->want_send, a->want_recv, a->ep.term, a->wakeups);
    }
}

/* run the reactor until the goals are met; returns 0 ok, 1 violation reported, 2 gave up (inconclusive) */
static int reactor(double max_s, const char *phase)
{
    double t_end = vnow() + max_s;
    double idle_since = 0, answered_idle_since = 0;
    long polls = 0;
    for (;;) {
        struct pollfd pf[MAXA]; struct agent *who[MAXA]; int n = 0;
        for (int i = 0; i < n_ag; i++) {
            struct agent *a = &ag[i];
            if (!a->alive || !a->ep.s) continue;
            int c = agent_cond(a);
            if (c != a->last_cond || vrnd_p(&rng, 10)) { vx_await(&a->ep, c); a->last_cond = c; }
            int fd = vx_fd(&a->ep);
            if (fd != a->ep.fd_num) { eviol("fd-changed", vtp_name[a->ep.tp], "xcm_fd returned %d, earlier %d", fd, a->ep.fd_num); return 1; }
            pf[n].fd = fd; pf[n].events = POLLIN | POLLOUT | POLLPRI; pf[n].revents = 0; who[n] = a; n++;
        }
        if (n == 0) return 0;
        int pr = vs_real_poll(pf, (unsigned long)n, 0);
        polls++;
        bool any = false;
        if (pr > 0) {
            int start = (int)vrnd_n(&rng, (uint32_t)n);
            for (int k = 0; k < n; k++) {
                int i = (start + k) % n;
                if (pf[i].revents & ~POLLIN) { eviol("fd-signals-other-than-readable", vtp_name[who[i]->ep.tp], "poll on the xcm fd of ep%d returned revents 0x%x", who[i]->ep.id, pf[i].revents); return 1; }
                if (pf[i].revents & POLLIN) { any = true; who[i]->wakeups++; vobs("wakeups", 1); act(who[i]); }
            }
        }
        if (vviol_count() > 0) return 1;
        if (any) {
            idle_since = 0; answered_idle_since = 0;
            char w0[256];
            if ((polls % 64) == 0 && goals_done(w0, sizeof w0)) return 0;
            if (vnow() > t_end) break;
            continue;
        }
        /* nothing readable */
        char why[256];
        if (goals_done(why, sizeof why)) return 0;
        bool timers = vs_armed_timers() > 0;
        bool resolver = vdns_scheduled() > 0;
        if (timers || resolver) {
            idle_since = 0; vobs("waits_for_xcm_timer_or_resolver", 1);
            /* a timer being armed excuses silence only while something is still outstanding.  Once the resolver has answered every query, the
             * next step (the first connect attempt, or the failure) is XCM's to take: it must ask for a turn at once, not when dns.timeout ends */
            if (cur->use_dns && !resolver && vdns_queries() > 0 && vdns_pending() == 0 && vdns_callbacks() > 0 && vs_connect_log_count() == 0) {
                if (answered_idle_since == 0) answered_idle_since = vnow();
                if (vnow() - answered_idle_since > 1.0) {
                    char bl[1600]; blame(bl, sizeof bl);
                    char kt[96]; snprintf(kt, sizeof kt, "%s:%s", vtp_name[cur->tp], "resolver-answered");
                    eviol("lost-wakeup", kt, "the resolver delivered its answer more than a second ago, no connect() has been made, no XCM descriptor is readable (only a timer is armed): the application is not asked to make the call that would use the answer. State: %s", bl);
                    return 1;
                }
            } else answered_idle_since = 0;
            struct pollfd none; vs_real_poll(&none, 0, 2); if (vnow() > t_end) break; continue;
        }
        if (idle_since == 0) { idle_since = vnow(); vobs("idle_points_with_goals_open", 1); }
        if (vnow() - idle_since > 0.5) {
            char bl[1600]; blame(bl, sizeof bl);
            char kt[96]; snprintf(kt, sizeof kt, "%s:%s", vtp_name[cur->tp], phase);
            eviol("lost-wakeup", kt, "no XCM descriptor has been readable for 500 ms, no XCM timer is armed, the resolver is idle, yet %s. State: %s", why, bl);
            return 1;
        }
        struct pollfd none; vs_real_poll(&none, 0, 1);
        if (vnow() > t_end) break;
    }
    return 2;
}

/* ----------------------------------------------------------- C16 probes ---- */
static int poll_fd(struct agent *a, short *rev)
{
    struct pollfd p = { .fd = a->ep.fd_num, .events = POLLIN | POLLOUT | POLLPRI };
    int rc = vs_real_poll(&p, 1, 0);
    *rev = p.revents;
    if (p.revents & ~POLLIN) { eviol("fd-signals-other-than-readable", vtp_name[a->ep.tp], "poll on the xcm fd of ep%d returned revents 0x%x", a->ep.id, p.revents); }
    return rc;
}

static bool quiet_samples(struct agent *a, int nsamples, short *rev_out)
{
    for (int k = 0; k < nsamples; k++) {
        short rev; poll_fd(a, &rev);
        if (rev & POLLIN) { *rev_out = rev; return false; }
        struct pollfd none; vs_real_poll(&none, 0, 1);
    }
    *rev_out = 0;
    return true;
}

static void check_fd_identity(struct agent *a)
{
    int fd = vx_fd(&a->ep);
    vobs("fd_identity_checks", 1);
    if (fd != a->ep.fd_num) eviol("fd-changed", vtp_name[a->ep.tp], "xcm_fd returned %d, at creation %d", fd, a->ep.fd_num);
    else if (vs_ledger_owner(fd) != VS_OWN_XCM || vs_ledger_creator(fd) != VS_EPOLL_CREATE)
        eviol("fd-replaced", vtp_name[a->ep.tp], "descriptor %d returned by xcm_fd is no longer the epoll instance created for the socket (closed/reopened underneath)", fd);
}

static void drain_until_eagain(struct agent *a, const char *when)
{
    for (int k = 0; k < 50; k++) {
        unsigned char buf[4096];
        int rc = vx_receive(&a->ep, buf, sizeof buf);
        if (rc > 0) { eviol("unexpected-data-at-quiescence", vtp_name[a->ep.tp], "%s: xcm_receive returned %d bytes on ep%d although everything accepted had been delivered", when, rc, a->ep.id); return; }
        if (rc == 0) { a->ep.term = 1; return; }
        if (errno == EAGAIN) return;
        a->ep.term = 2; return;
    }
}

static void probe_conn(struct agent *a, struct agent *p)
{
    short rev;
    const char *tn = vtp_name[a->ep.tp];
    check_fd_identity(a);
    /* if XCM still has a timer armed at this idle point, let it expire first: whatever it does must not
       make an idle connection readable (the timer itself is not judged, only the readability after it) */
    if (vs_armed_timers() > 0) {
        double t0 = vnow(), lim = va.thorough ? 3.6 : 1.2;
        vobs("idle_points_with_armed_xcm_timer", 1);
        while (vs_armed_timers() > 0 && vnow() - t0 < lim) { struct pollfd none; vs_real_poll(&none, 0, 5); }
        if (vs_armed_timers() == 0) vobs("armed_timers_waited_out", 1);
    }
    /* condition 0 */
    vx_await(&a->ep, 0);
    vobs("probe_cond0", 1);
    if (!quiet_samples(a, 5, &rev)) { eviol("not-quiet:cond0", tn, "idle established connection ep%d, nothing buffered, condition 0: xcm fd readable", a->ep.id); return; }
    /* RECEIVABLE after a receive that reported EAGAIN */
    vx_await(&a->ep, XCM_SO_RECEIVABLE);
    drain_until_eagain(a, "probe RECEIVABLE");
    if (a->ep.term) return;
    vobs("probe_receivable_idle", 1);
    if (!quiet_samples(a, 5, &rev)) {
        /* allow exactly what an event loop would do: one more receive, then it must stay quiet */
        drain_until_eagain(a, "probe RECEIVABLE (2nd)");
        if (!quiet_samples(a, 5, &rev)) { eviol("not-quiet:receivable", tn, "ep%d awaits RECEIVABLE, xcm_receive reported EAGAIN twice, nothing has arrived, yet the xcm fd stays readable (event loop would spin)", a->ep.id); return; }
        vobs("single_spurious_wakeups_tolerated", 1);
    }
    /* SENDABLE (and R|S) at idle: already met => readable at once */
    for (int v = 0; v < 2; v++) {
        int c = v ? (XCM_SO_SENDABLE | XCM_SO_RECEIVABLE) : XCM_SO_SENDABLE;
        vx_await(&a->ep, c);
        poll_fd(a, &rev);
        vobs("probe_sendable_met", 1);
        if (!(rev & POLLIN)) { eviol("not-ready:sendable", tn, "ep%d idle and writable, xcm_await(%d): xcm fd not readable on the immediately following poll", a->ep.id, c); return; }
    }
    vx_await(&a->ep, 0);
    if (!quiet_samples(a, 3, &rev)) { eviol("not-quiet:cond0", tn, "ep%d back to condition 0 after SENDABLE: xcm fd readable", a->ep.id); return; }
    if (!p || !p->ep.s || p->ep.term || p->failed) return;
    /* data in the kernel buffer (or inside OpenSSL) at the time of xcm_await */
    for (int round = 0; round < 2; round++) {
        uint32_t len = round == 0 ? 1 + vrnd_n(&rng, 200) : 800 + vrnd_n(&rng, 3000);
        unsigned char *buf = malloc(len);
        long ai = veng_att_begin(&p->ep, len);
        veng_fill(p->ep.key, p->ep.att[ai].id, buf, len);
        int rc = -1, se = 0;
        for (int k = 0; k < 2000; k++) { rc = vx_send(&p->ep, buf, len); se = errno; if (rc >= 0 || se != EAGAIN) break; }
        veng_att_end(&p->ep, ai, rc, se);
        free(buf);
        if (rc < 0) return;
        uint32_t sent = p->ep.bytestream ? (uint32_t)rc : len;
        for (int k = 0; k < 5000; k++) { if (vx_finish(&p->ep) == 0 || errno != EAGAIN) break; }
        int rfd = vs_ledger_data_fd(a->ep.id);
        /* wait (on the raw descriptor, outside XCM) until the kernel has the data */
        bool arrived = false;
        for (int k = 0; k < 2000 && rfd >= 0; k++) { int q = 0; ioctl(rfd, FIONREAD, &q); if (q > 0) { arrived = true; break; } struct pollfd none; vs_real_poll(&none, 0, 1); }
        if (!arrived) { vobs("probe_data_never_arrived", 1); return; }
        vx_await(&a->ep, XCM_SO_RECEIVABLE);
        poll_fd(a, &rev);
        vobs("probe_receivable_met_kernel", 1);
        if (!(rev & POLLIN)) { eviol("not-ready:receivable", tn, "ep%d: %u bytes wait in the kernel buffer, xcm_await(RECEIVABLE): xcm fd not readable on the immediately following poll", a->ep.id, sent); return; }
        /* read it, for byte streams in small pieces so that plaintext stays inside OpenSSL */
        uint32_t got = 0; int guard = 0;
        while (got < sent && guard++ < 20000) {
            size_t cap = a->ep.bytestream ? (round == 1 ? 7 + vrnd_n(&rng, 40) : 65536) : 65535;
            unsigned char *rb = malloc(cap);
            int r2 = vx_receive(&a->ep, rb, cap); int e2 = errno;
            if (r2 > 0) { veng_rx_add(&a->ep, rb, r2, cap); got += a->ep.bytestream ? (uint32_t)r2 : sent; }
            free(rb);
            if (r2 == 0) { a->ep.term = 1; return; }
            if (r2 < 0 && e2 != EAGAIN) { a->ep.term = 2; return; }
            if (r2 < 0) { struct pollfd none; vs_real_poll(&none, 0, 1); continue; }
            if (a->ep.bytestream && got < sent) {
                int q = 0; ioctl(rfd, FIONREAD, &q);
                vx_await(&a->ep, XCM_SO_RECEIVABLE);
                poll_fd(a, &rev);
                if (q == 0) vobs("probe_receivable_met_inside_tls", 1); else vobs("probe_receivable_met_kernel", 1);
                /* the rest is either in the kernel or already decrypted inside the TLS layer: both count as available */
                if (!(rev & POLLIN)) {
                    /* on btcp with q == 0 the remainder may still be in flight */
                    if (q > 0 || a->ep.tp == TP_BTLS) { eviol("not-ready:receivable", tn, "ep%d: %u of %u bytes read, remainder available (%d in the kernel buffer, rest inside the TLS layer), xcm_await(RECEIVABLE): xcm fd not readable", a->ep.id, got, sent, q); return; }
                }
            }
        }
        drain_until_eagain(a, "after probe data");
        if (a->ep.term) return;
        if (!quiet_samples(a, 4, &rev)) {
            drain_until_eagain(a, "after probe data (2nd)");
            if (!quiet_samples(a, 4, &rev)) { eviol("not-quiet:receivable", tn, "ep%d: after reading everything and an EAGAIN the xcm fd stays readable", a->ep.id); return; }
        }
    }
    veng_check_delivery(cur_case, &p->ep, &a->ep, false, ctx);
    check_fd_identity(a);
}


/* Genuine back-pressure (no injection): the peer stops reading until this end's sends are refused and its descriptor, awaiting SENDABLE, has
 * been quiet for 300 ms.  Then input arrives from the peer: an application awaiting RECEIVABLE - together with SENDABLE or alone - must be
 * woken although the write direction stays blocked, and must get the data.  Afterwards the peer reads on and everything accepted arrives. */
static bool bp_send_one(struct agent *x, uint32_t len, int *err)
{
    struct vep *e = &x->ep; unsigned char *buf = malloc(len);
    long ai = veng_att_begin(e, len); veng_fill(e->key, e->att[ai].id, buf, len);
    int rc = vx_send(e, buf, len); int se = errno; free(buf); veng_att_end(e, ai, rc, se);
    *err = rc >= 0 ? 0 : se;
    return rc >= 0;
}

static int bp_recv_one(struct agent *x)       /* 1 data, 0 EAGAIN, -1 end */
{
    struct vep *e = &x->ep; size_t cap = 65535; unsigned char *buf = malloc(cap);
    int rc = vx_receive(e, buf, cap); int se = errno;
    if (rc > 0) veng_rx_add(e, buf, rc, cap);
    free(buf);
    if (rc > 0) return 1;
    if (rc == 0) { e->term = 1; return -1; }
    if (se == EAGAIN) return 0;
    e->term = 2; e->term_errno = se; return -1;
}

static void probe_backpressure(struct agent *a, struct agent *p)
{
    const char *tn = vtp_name[a->ep.tp]; short rev; int err;
    if (!a->ep.s || !p || !p->ep.s || a->ep.term || p->ep.term || a->failed || p->failed) return;
    a->ep.plan.quiet = true; p->ep.plan.quiet = true;
    if (vtp_is_tcp_based(a->ep.tp) && a->ep.tp != TP_UTLS_UX) {
        struct vs_scope sc = { .active = true, .nonblocking = true, .api = "xcm_attr_set", .ep = a->ep.id, .plan = &a->ep.plan };
        vs_enter(&sc); xcm_attr_set_int64(a->ep.s, "tcp.user_timeout", 120); xcm_attr_set_int64(p->ep.s, "tcp.user_timeout", 120); vs_leave();
    }
    bool full = false; long filled = 0;
    for (int k = 0; k < 4000 && !full; k++) {
        if (bp_send_one(a, 60000, &err)) { filled++; continue; }
        if (err != EAGAIN) { vobs("backpressure_probe_broke", 1); return; }
        vx_await(&a->ep, XCM_SO_SENDABLE);
        bool woke = false;
        for (int w = 0; w < 60 && !woke; w++) { poll_fd(a, &rev); if (rev & POLLIN) woke = true; else { struct pollfd none; vs_real_poll(&none, 0, 5); } }
        if (woke) { vx_finish(&a->ep); continue; }
        full = true;
    }
    if (!full) { vobs("backpressure_not_reached", 1); return; }
    vobs("backpressure_established", 1); vobs("messages_sent_into_backpressure", filled);
    int rfd = vs_ledger_data_fd(a->ep.id);
    for (int v = 0; v < 2; v++) {
        int cond = v == 0 ? (XCM_SO_SENDABLE | XCM_SO_RECEIVABLE) : XCM_SO_RECEIVABLE;
        vx_await(&a->ep, cond);
        long before = rx_count(a);
        uint32_t len = 1 + vrnd_n(&rng, 200); bool sent = false;
        for (int k = 0; k < 2000 && !sent; k++) { sent = bp_send_one(p, len, &err); if (!sent && err != EAGAIN) { vobs("backpressure_probe_broke", 1); return; } }
        if (!sent) { vobs("backpressure_probe_peer_could_not_send", 1); return; }
        for (int k = 0; k < 5000; k++) { if (vx_finish(&p->ep) == 0 || errno != EAGAIN) break; }
        bool arrived = false;
        for (int k = 0; k < 2000 && rfd >= 0; k++) { int q = 0; ioctl(rfd, FIONREAD, &q); if (q > 0) { arrived = true; break; } struct pollfd none; vs_real_poll(&none, 0, 1); }
        if (!arrived) { vobs("probe_data_never_arrived", 1); return; }
        bool woke = false;
        for (int w = 0; w < 100 && !woke; w++) { poll_fd(a, &rev); if (rev & POLLIN) woke = true; else { struct pollfd none; vs_real_poll(&none, 0, 5); } }
        vobs(v == 0 ? "probe_input_while_write_blocked_awaiting_both" : "probe_input_while_write_blocked_awaiting_receivable", 1);
        if (!woke) {
            int q = 0; if (rfd >= 0) ioctl(rfd, FIONREAD, &q);
            eviol("not-ready:receivable-under-backpressure", tn, "ep%d is write-blocked by real back-pressure (%ld messages of 60000 bytes accepted, then EAGAIN and 300 ms without a wake-up) and awaits condition %d; %d bytes from the peer wait in its kernel buffer, yet the xcm fd has not become readable in 500 ms", a->ep.id, filled, cond, q);
            return;
        }
        bool got = false;
        for (int k = 0; k < 3000 && !got; k++) { int r1 = bp_recv_one(a); if (r1 < 0) { vobs("backpressure_probe_broke", 1); return; } if (rx_count(a) > before) got = true; else { struct pollfd none; vs_real_poll(&none, 0, 1); } }
        if (!got) { eviol("input-not-delivered-under-backpressure", tn, "ep%d is write-blocked; input from the peer made its xcm fd readable but 3000 xcm_receive calls over 3 s returned only EAGAIN", a->ep.id); return; }
        /* bytestream: take the rest of that piece */
        for (int k = 0; k < 50; k++) if (bp_recv_one(a) <= 0) break;
        if (a->ep.term) { vobs("backpressure_probe_broke", 1); return; }
    }
    /* input that is already inside the TLS layer: the peer sends two pieces back to back, this end (still write-blocked) takes the first,
     * tries to send (refused), then awaits RECEIVABLE: the second piece is no longer in the kernel buffer - OpenSSL read it ahead - yet it is
     * available, and the descriptor must say so */
    if (vtp_is_tls(a->ep.tp)) {
        long before = rx_count(a); bool ok2 = true;
        for (int k2 = 0; k2 < 2 && ok2; k2++) { bool sent = false; for (int k = 0; k < 2000 && !sent; k++) { sent = bp_send_one(p, 40 + vrnd_n(&rng, 100), &err); if (!sent && err != EAGAIN) ok2 = false; if (!ok2) break; } if (!sent) ok2 = false; }
        for (int k = 0; k < 5000 && ok2; k++) { if (vx_finish(&p->ep) == 0 || errno != EAGAIN) break; }
        bool arrived = false;
        for (int k = 0; k < 2000 && rfd >= 0 && ok2; k++) { int q = 0; ioctl(rfd, FIONREAD, &q); if (q > 0) { arrived = true; break; } struct pollfd none; vs_real_poll(&none, 0, 1); }
        if (ok2 && arrived) {
            { struct pollfd none; vs_real_poll(&none, 0, 20); }      /* both records are in the kernel buffer by now */
            /* take the first piece only */
            size_t cap = a->ep.bytestream ? 16 : 65535; unsigned char *rb = malloc(cap); int r1 = -1;
            for (int k = 0; k < 3000; k++) { r1 = vx_receive(&a->ep, rb, cap); if (r1 > 0 || (r1 < 0 && errno != EAGAIN) || r1 == 0) break; struct pollfd none; vs_real_poll(&none, 0, 1); }
            if (r1 > 0) veng_rx_add(&a->ep, rb, r1, cap);
            free(rb);
            if (r1 > 0) {
                int q = 0; if (rfd >= 0) ioctl(rfd, FIONREAD, &q);
                bool s1 = bp_send_one(a, 60000, &err);           /* still blocked: refused (if it is accepted the write side has opened, fine) */
                int cond2 = vrnd_p(&rng, 50) ? XCM_SO_RECEIVABLE : (XCM_SO_RECEIVABLE | XCM_SO_SENDABLE);
                vx_await(&a->ep, cond2);
                poll_fd(a, &rev);
                if (q == 0) {
                    vobs("probe_input_inside_tls_while_write_blocked", 1);
                    if (!(rev & POLLIN) && !s1) { eviol("not-ready:receivable-inside-tls-under-backpressure", tn, "ep%d is write-blocked (its last xcm_send was refused), a further piece of input has been read ahead by the TLS layer (kernel buffer empty), it awaits condition %d: the xcm fd is not readable", a->ep.id, cond2); return; }
                }
                for (int k = 0; k < 3000 && rx_count(a) < before + (a->ep.bytestream ? 80 : 2); k++) { int r2 = bp_recv_one(a); if (r2 < 0) { vobs("backpressure_probe_broke", 1); return; } if (r2 == 0) { struct pollfd none; vs_real_poll(&none, 0, 1); } }
                for (int k = 0; k < 50; k++) if (bp_recv_one(a) <= 0) break;
                if (a->ep.term) { vobs("backpressure_probe_broke", 1); return; }
            }
        }
    }
    /* the peer reads on: the write direction opens, everything accepted arrives */
    double t0 = vnow(); bool done = false;
    while (vnow() - t0 < 30 && !done) {
        int fr = vx_finish(&a->ep); int fe = errno;
        if (fr < 0 && fe != EAGAIN) { vobs("backpressure_probe_broke", 1); return; }
        int r1 = 0; for (int k = 0; k < 64; k++) { r1 = bp_recv_one(p); if (r1 <= 0) break; }
        if (r1 < 0) { vobs("backpressure_probe_broke", 1); return; }
        if (fr == 0 && rx_count(p) >= tx_ok(a)) done = true;
    }
    if (!done) { vobs("backpressure_drain_gave_up", 1); return; }
    vobs("backpressure_probes_completed", 1);
    veng_check_delivery(cur_case, &a->ep, &p->ep, false, ctx);
    veng_check_delivery(cur_case, &p->ep, &a->ep, false, ctx);
}


/* Control clients come and go while everything is idle: as many as the interface seats on each socket, one more that has to queue, then
 * all of them leave.  Serving them wakes the owner up (by design); once served, an idle socket is quiet again - whatever the number of
 * clients attached or queued. */
static char ctl_dir16[700];
static void owner_turns(int n)
{
    unsigned char b[64];
    for (int k = 0; k < n; k++)
        for (int i = 0; i < n_ag; i++) {
            struct agent *a = &ag[i];
            if (!a->ep.s || a->failed || a->ep.term) continue;
            if (a->role == R_SERVER) { struct vs_scope sc = { .active = true, .nonblocking = true, .api = "xcm_accept_a", .ep = a->ep.id, .plan = NULL }; vs_enter(&sc); struct xcm_socket *x = xcm_accept_a(a->ep.s, NULL); vs_leave(); if (x) { xcm_close(x); eviol("unexpected-connection", vtp_name[a->ep.tp], "server produced a connection nobody made"); } }
            else { int rc = vx_receive(&a->ep, b, sizeof b); if (rc > 0) eviol("unexpected-data-at-quiescence", vtp_name[a->ep.tp], "xcm_receive returned %d bytes on idle ep%d while control clients were being served", rc, a->ep.id); else if (rc == 0) a->ep.term = 1; else if (errno != EAGAIN) a->ep.term = 2; }
        }
}

static bool all_quiet(const char *when, int attached, int queued)
{
    for (int i = 0; i < n_ag; i++) {
        struct agent *a = &ag[i]; short rev;
        if (!a->ep.s || a->failed || a->ep.term) continue;
        vobs("probe_quiet_with_control_clients", 1);
        if (!quiet_samples(a, 4, &rev)) {
            owner_turns(6);
            if (!quiet_samples(a, 4, &rev)) {
                eviol("not-quiet:control-clients", vtp_name[a->ep.tp], "%s: %s ep%d is idle and awaits %s, its owner has made more than 20 event-loop turns, yet its xcm fd stays readable (%d control client(s) per socket attached, %d queued)", when,
                      a->role == R_SERVER ? "server socket" : "connection", a->ep.id, a->role == R_SERVER ? "ACCEPTABLE" : "RECEIVABLE", attached, queued);
                return false;
            }
        }
    }
    return true;
}

static void probe_ctl_quiet(void)
{
    for (int i = 0; i < n_ag; i++) { struct agent *a = &ag[i]; if (!a->ep.s || a->failed || a->ep.term) continue; vx_await(&a->ep, a->role == R_SERVER ? XCM_SO_ACCEPTABLE : XCM_SO_RECEIVABLE); }
    int fds[4][8], n[4] = { 0, 0, 0, 0 };
    int rounds = 3 + (int)vrnd_n(&rng, 2);          /* the interface seats two clients per socket: the third (and fourth) queue */
    bool ok = true;
    for (int rd = 0; rd < rounds && ok; rd++) {
        n[rd] = vctl_connect_all(ctl_dir16, fds[rd], NULL, 8);
        if (n[rd] == 0) break;
        /* some of them also talk: a proper request (the answer is left unread), one of a type this library does not know, a runt */
        bool talked = false;
        if (rd < 2) for (int i = 0; i < n[rd]; i++) {
            int w = (int)vrnd_n(&rng, 6);
            if (w == 0) { vctl_send_get(fds[rd][i], "xcm.transport"); vobs("control_client_requests:get", 1); talked = true; }
            else if (w == 1) { vctl_send_get_all(fds[rd][i]); vobs("control_client_requests:get-all", 1); talked = true; }
            else if (w == 2) { struct ctl_proto_msg q; memset(&q, 0, sizeof q); q.type = 77 + (int)vrnd_n(&rng, 100); vctl_send_raw(fds[rd][i], &q, sizeof q); vobs("control_client_requests:unknown-type", 1); talked = true; }
            else if (w == 3) { char q[24]; memset(q, 0x5a, sizeof q); vctl_send_raw(fds[rd][i], q, 1 + vrnd_n(&rng, sizeof q - 1)); vobs("control_client_requests:runt", 1); talked = true; }
        }
        owner_turns(talked ? 30 : 15);
        ok = all_quiet(rd < 2 ? "control clients attached" : "control clients attached and more queued", rd < 2 ? rd + 1 : 2, rd < 2 ? 0 : rd - 1);
    }
    if (n[0]) vobs("control_client_rounds", 1);
    /* they leave, in a seed-chosen order */
    int order[4] = { 0, 1, 2, 3 }; for (int i = 3; i > 0; i--) { int j = (int)vrnd_n(&rng, (uint32_t)i + 1); int t = order[i]; order[i] = order[j]; order[j] = t; }
    for (int k = 0; k < 4; k++) { int rd = order[k]; for (int i = 0; i < n[rd]; i++) close(fds[rd][i]); n[rd] = 0; if (ok) { owner_turns(15); ok = all_quiet("control clients leaving", -1, -1); } }
    for (int i = 0; i < n_ag; i++) { struct agent *a = &ag[i]; if (a->ep.s && !a->failed && !a->ep.term) { vx_await(&a->ep, 0); short rev; if (ok && !quiet_samples(a, 3, &rev)) { owner_turns(10); if (!quiet_samples(a, 3, &rev)) eviol("not-quiet:cond0", vtp_name[a->ep.tp], "ep%d with condition 0 after control clients came and went: xcm fd readable", a->ep.id); } } }
}

static void probe_server(struct agent *s)
{
    short rev; const char *tn = vtp_name[s->ep.tp];
    check_fd_identity(s);
    vx_await(&s->ep, XCM_SO_ACCEPTABLE);
    vobs("probe_server_idle", 1);
    if (!quiet_samples(s, 5, &rev)) {
        /* an event loop would call accept: do so, expect EAGAIN, then quiet */
        struct xcm_socket *x; { struct vs_scope sc = { .active = true, .nonblocking = true, .api = "xcm_accept_a", .ep = s->ep.id, .plan = NULL }; vs_enter(&sc); x = xcm_accept_a(s->ep.s, NULL); vs_leave(); }
        if (x) { xcm_close(x); eviol("unexpected-connection", tn, "server produced a connection nobody made"); return; }
        if (!quiet_samples(s, 5, &rev)) { eviol("not-quiet:acceptable", tn, "server socket awaits ACCEPTABLE, no connection pending, xcm_accept reported EAGAIN, yet the xcm fd stays readable"); return; }
    }
    vx_await(&s->ep, 0);
    if (!quiet_samples(s, 3, &rev)) { eviol("not-quiet:cond0", tn, "server socket with condition 0: xcm fd readable"); return; }
}

/* ---------------------------------------------------- blocking scenarios ---- */
struct bthr { pthread_t th; volatile int state; const struct ecase *c; char addr[256]; struct xcm_socket *server; int n; uint64_t key; struct vep ep; volatile long done_msgs; int err; };

static void *blk_server_thread(void *arg)
{
    struct bthr *t = arg;
    struct vs_scope sc = { .active = true, .nonblocking = false, .api = "xcm_accept", .ep = t->ep.id, .plan = &t->ep.plan };
    vs_enter(&sc);
    struct xcm_socket *c = xcm_accept(t->server);
    vs_leave();
    if (!c) { t->err = errno; t->state = 2; return NULL; }
    t->ep.s = c; t->ep.blocking = true;
    t->state = 1;
    for (;;) {
        unsigned char *buf = malloc(65535);
        int rc = vx_receive(&t->ep, buf, 65535);
        if (rc > 0) { veng_rx_add(&t->ep, buf, rc, 65535); t->done_msgs++; }
        free(buf);
        if (rc <= 0) { t->err = rc < 0 ? errno : 0; break; }
    }
    t->state = 2;
    return NULL;
}

static void *blk_client_thread(void *arg)
{
    struct bthr *t = arg;
    struct vs_scope sc = { .active = true, .nonblocking = false, .api = "xcm_connect", .ep = t->ep.id, .plan = &t->ep.plan };
    vs_enter(&sc);
    struct xcm_attr_map *m = xcm_attr_map_create();
    if (vtp_is_bytestream(t->ep.tp)) xcm_attr_map_add_str(m, "xcm.service", "any");
    struct xcm_socket *c = xcm_connect_a(t->addr, m);
    xcm_attr_map_destroy(m);
    vs_leave();
    if (!c) { t->err = errno; t->state = 2; return NULL; }
    t->ep.s = c; t->ep.blocking = true;
    t->state = 1;
    vrng r = { t->key };
    for (int i = 0; i < t->n; i++) {
        uint32_t len = msg_len(t->c, &r);
        unsigned char *buf = malloc(len);
        long ai = veng_att_begin(&t->ep, len);
        veng_fill(t->ep.key, t->ep.att[ai].id, buf, len);
        int rc = vx_send(&t->ep, buf, len); int se = errno;
        veng_att_end(&t->ep, ai, rc, se);
        free(buf);
        if (rc < 0) { t->err = se; break; }
        t->done_msgs++;
    }
    vx_close(&t->ep);
    t->state = 2;
    return NULL;
}

static void blocking_case(const struct ecase *c)
{
    /* blocking xcm_server/xcm_accept/xcm_receive in one thread, blocking xcm_connect/xcm_send/xcm_close in another */
    char saddr[256];
    static int ctr; ctr++;
    switch (c->tp) {
    case TP_UX: snprintf(saddr, sizeof saddr, "ux:verif-blk-%d-%d-%d", (int)getpid(), va.worker, ctr); break;
    case TP_UXF: snprintf(saddr, sizeof saddr, "uxf:%s/uxf/b%d-%d", va.dir, (int)getpid(), ctr); break;
    case TP_TCP: snprintf(saddr, sizeof saddr, "tcp:127.0.0.1:0"); break;
    case TP_TLS: snprintf(saddr, sizeof saddr, "tls:127.0.0.1:0"); break;
    case TP_BTCP: snprintf(saddr, sizeof saddr, "btcp:127.0.0.1:0"); break;
    case TP_BTLS: snprintf(saddr, sizeof saddr, "btls:127.0.0.1:0"); break;
    default: snprintf(saddr, sizeof saddr, "utls:127.0.0.1:0"); break;
    }
    struct xcm_attr_map *m = xcm_attr_map_create();
    if (vtp_is_bytestream(c->tp)) xcm_attr_map_add_str(m, "xcm.service", "any");
    struct xcm_socket *srv = xcm_server_a(saddr, m);
    xcm_attr_map_destroy(m);
    if (!srv) { vobs("setup_failed", 1); return; }
    struct bthr ts, tc; memset(&ts, 0, sizeof ts); memset(&tc, 0, sizeof tc);
    veng_ep_init(&ts.ep, 1, c->tp, vmix(c->sub_seed ^ 11)); veng_ep_init(&tc.ep, 0, c->tp, vmix(c->sub_seed ^ 12));
    struct vs_plan *pl[2] = { &ts.ep.plan, &tc.ep.plan };
    for (int i = 0; i < 2; i++) { pl[i]->eagain_send_pct = pl[i]->eagain_recv_pct = c->plan_class >= 2 ? 20 : 0; pl[i]->frag_send_pct = pl[i]->frag_recv_pct = (c->plan_class & 1) ? 50 : 0; }
    ts.server = srv; ts.c = c; tc.c = c; tc.n = c->nmsg; tc.key = vmix(c->sub_seed ^ 13);
    const char *la = xcm_local_addr(srv);
    snprintf(tc.addr, sizeof tc.addr, "%s", la ? la : saddr);
    if (c->tp == TP_UTLS_TLS) snprintf(tc.addr, sizeof tc.addr, "tls:%s", strchr(la, ':') + 1);
    pthread_create(&ts.th, NULL, blk_server_thread, &ts);
    pthread_create(&tc.th, NULL, blk_client_thread, &tc);
    double t_end = vnow() + 40;
    while (vnow() < t_end && (ts.state != 2 || tc.state != 2)) { struct pollfd none; vs_real_poll(&none, 0, 2); }
    if (ts.state != 2 || tc.state != 2) {
        char kt[96]; snprintf(kt, sizeof kt, "%s:client-state%d:server-state%d", vtp_name[c->tp], tc.state, ts.state);
        eviol("blocking-call-stuck", kt, "blocking scenario: after 40 s the client thread is in state %d (0 connecting, 1 sending, 2 done; %ld sent) and the server thread in state %d (0 accepting, 1 receiving, 2 done; %ld received)", tc.state, tc.done_msgs, ts.state, ts.done_msgs);
        vsummary(false); fflush(stdout); _exit(0);
    }
    pthread_join(ts.th, NULL); pthread_join(tc.th, NULL);
    vobs("blocking_scenarios_completed", 1);
    if (tc.err == 0 && ts.err == 0 && tc.ep.n_att > 0) veng_check_delivery(cur_case, &tc.ep, &ts.ep, !tc.ep.conn_error_seen && ts.ep.term != 2, ctx);
    if (ts.ep.s) { vx_close(&ts.ep); }
    xcm_close(srv);
    veng_ep_free(&ts.ep); veng_ep_free(&tc.ep);
}

/* ------------------------------------------------------------ the case ---- */
static void gen_case(struct ecase *c, long idx)
{
    memset(c, 0, sizeof *c);
    c->idx = idx; c->sub_seed = vsub_seed(va.seed, (uint64_t)va.worker, (uint64_t)idx);
    vrng r = { c->sub_seed };
    static const enum vtp tps[] = { TP_UX, TP_TCP, TP_TLS, TP_BTCP, TP_BTLS, TP_UTLS_UX, TP_UTLS_TLS, TP_UXF, TP_TLS, TP_TCP, TP_BTLS };
    long gi = idx * va.nworkers + va.worker;
    c->tp = tps[gi % 11];
    c->nmsg = 5 + (int)vrnd_n(&r, 60);
    c->bidir = vrnd_p(&r, 50);
    c->plan_class = vtp_is_ux(c->tp) ? (vrnd_p(&r, 40) ? 2 : 0) : (int)vrnd_n(&r, 4);
    c->speculative_start = vrnd_p(&r, 50);
    c->size_class = (int)vrnd_n(&r, 4);
    if (vtp_is_tcp_based(c->tp) && c->tp != TP_UTLS_UX) {
        c->use_dns = vrnd_p(&r, 45);
        if (c->use_dns) { c->dns_deliver = (int)vrnd_n(&r, 3); c->dns_after = c->dns_deliver == VDNS_AFTER_PROCESS ? 1 + (int)vrnd_n(&r, 4) : 5 + (int)vrnd_n(&r, 40);
            c->topology = (int)vrnd_n(&r, 4); }
    }
    if (prop == PROP_C04 && vrnd_p(&r, 15)) { c->blocking_scenario = true; c->use_dns = false; c->topology = 0; }
    if (prop == PROP_C16 && vrnd_p(&r, 30)) c->ctl = true;
}

static void case_json(const struct ecase *c, char *buf, size_t cap)
{
    snprintf(buf, cap, "{\"case\":%ld,\"sub_seed\":\"%" PRIu64 "\",\"transport\":\"%s\",\"messages\":%d,\"bidir\":%d,\"plan_class\":%d,\"speculative_start\":%d,\"dns\":%d,\"dns_deliver\":%d,\"dns_after\":%d,\"topology\":%d,\"size_class\":%d,\"blocking_scenario\":%d,\"control_clients_at_quiescence\":%d}",
             c->idx, c->sub_seed, vtp_name[c->tp], c->nmsg, c->bidir, c->plan_class, c->speculative_start, c->use_dns, c->dns_deliver, c->dns_after, c->topology, c->size_class, c->blocking_scenario, c->ctl);
}

static void apply_plan(struct vs_plan *p, int plan_class)
{
    p->eagain_send_pct = p->eagain_recv_pct = plan_class >= 2 ? 20 : 0;
    p->frag_send_pct = p->frag_recv_pct = (plan_class & 1) ? 50 : 0;
}

static void one_case(long idx, void *arg)
{
    (void)arg;
    struct ecase c; gen_case(&c, idx);
    cur = &c; cur_case = idx; rng = (vrng){ vmix(c.sub_seed ^ 0xe1) };
    char cj[600]; case_json(&c, cj, sizeof cj); snprintf(ctx, sizeof ctx, "%s", cj);
    VLOG("case %s", cj);
    n_ag = 0;
    vdns_reset(); vdns_enable(c.use_dns);
    if (c.blocking_scenario) { blocking_case(&c); vclass("blocking-scenario"); vsig_str(cj + 20); vcase_done(true); if (idx < 2) vsample(cj); return; }

    if (c.ctl) { snprintf(ctl_dir16, sizeof ctl_dir16, "%s/ctl16-%d", va.dir, (int)getpid()); mkdir(ctl_dir16, 0700); setenv("XCM_CTL", ctl_dir16, 1); vs_ledger_reset(); }
    /* server */
    struct agent *S = new_agent(R_SERVER, c.tp, vmix(c.sub_seed ^ 5));
    char saddr[256]; static int ctr; ctr++;
    const char *accept_ip = "127.0.0.1";
    struct vnet_noanswer na; na.lfd = -1; na.ncfd = 0; bool have_na = false;
    int port = 0;
    const char *proto = c.tp == TP_TCP ? "tcp" : c.tp == TP_TLS ? "tls" : c.tp == TP_BTCP ? "btcp" : c.tp == TP_BTLS ? "btls" : "utls";
    if (c.use_dns && c.topology != 0) {
        accept_ip = "127.0.0.42";
        const char *ips[3] = { "127.0.0.42", "127.0.0.41", "::1" };
        port = vnet_pick_port(ips, 3);
        if (port < 0) { vobs("setup_failed", 1); vcase_done(false); return; }
    }
    switch (c.tp) {
    case TP_UX: snprintf(saddr, sizeof saddr, "ux:verif-ev-%d-%d-%d", (int)getpid(), va.worker, ctr); break;
    case TP_UXF: snprintf(saddr, sizeof saddr, "uxf:%s/uxf/e%d-%d", va.dir, (int)getpid(), ctr); break;
    default: snprintf(saddr, sizeof saddr, "%s:%s:%d", proto, accept_ip, port); break;
    }
    {
        struct xcm_attr_map *m = xcm_attr_map_create();
        xcm_attr_map_add_bool(m, "xcm.blocking", false);
        if (vtp_is_bytestream(c.tp)) xcm_attr_map_add_str(m, "xcm.service", "any");
        struct vs_scope sc = { .active = true, .nonblocking = true, .api = "xcm_server_a", .ep = S->ep.id, .plan = &S->ep.plan };
        vs_enter(&sc); S->ep.s = xcm_server_a(saddr, m); vs_leave();
        xcm_attr_map_destroy(m);
    }
    if (!S->ep.s) { vobs("setup_failed", 1); VLOG("server failed %s: %s", saddr, strerror(errno)); vcase_done(false); return; }
    S->ep.is_server = true; S->ep.fd_num = vx_fd(&S->ep);
    const char *la = xcm_local_addr(S->ep.s);
    char caddr[256]; snprintf(caddr, sizeof caddr, "%s", la);
    if (!port && vtp_is_tcp_based(c.tp)) { const char *pc = strrchr(la, ':'); port = atoi(pc + 1); }
    if (c.tp == TP_UTLS_TLS) snprintf(caddr, sizeof caddr, "tls:%s", strchr(la, ':') + 1);

    struct xcm_attr_map *cm = xcm_attr_map_create();
    xcm_attr_map_add_bool(cm, "xcm.blocking", false);
    if (vtp_is_bytestream(c.tp)) xcm_attr_map_add_str(cm, "xcm.service", "any");
    if (c.use_dns) {
        struct vdns_plan dp; memset(&dp, 0, sizeof dp);
        snprintf(dp.name, sizeof dp.name, "c%ld.evloop.verif.test", idx);
        dp.deliver = (enum vdns_deliver)c.dns_deliver; dp.after = c.dns_after;
        const char *cproto = c.tp == TP_UTLS_TLS ? "tls" : proto;
        snprintf(caddr, sizeof caddr, "%s:%s:%d", cproto, dp.name, port);
        switch (c.topology) {
        case 0: vdns_addr4(&dp.addrs[dp.n++], "127.0.0.1"); break;
        case 1: /* first candidate never answers, second accepts */
            if (vnet_noanswer_open(&na, "127.0.0.41", port) == 0) have_na = true;
            vdns_addr4(&dp.addrs[dp.n++], "127.0.0.41"); vdns_addr4(&dp.addrs[dp.n++], "127.0.0.42");
            xcm_attr_map_add_str(cm, "dns.algorithm", "sequential"); xcm_attr_map_add_double(cm, "tcp.connect_timeout", 0.12 + vrnd_n(&rng, 10) / 100.0);
            break;
        case 2: /* first candidate refuses */
            vdns_addr4(&dp.addrs[dp.n++], "127.0.0.43"); vdns_addr4(&dp.addrs[dp.n++], "127.0.0.42");
            xcm_attr_map_add_str(cm, "dns.algorithm", "sequential");
            break;
        case 3: /* happy eyeballs: IPv6 candidate refuses or is silent, IPv4 accepts after the 200 ms head start */
            vdns_addr6(&dp.addrs[dp.n++], "::1"); vdns_addr4(&dp.addrs[dp.n++], "127.0.0.42");
            xcm_attr_map_add_str(cm, "dns.algorithm", "happy_eyeballs"); xcm_attr_map_add_double(cm, "tcp.connect_timeout", 0.5);
            break;
        }
        vdns_set(&dp);
    }
    if (prop == PROP_C16 && vtp_is_tcp_based(c.tp) && c.tp != TP_UTLS_UX && !xcm_attr_map_exists(cm, "tcp.connect_timeout") && vrnd_p(&rng, 50))
        xcm_attr_map_add_double(cm, "tcp.connect_timeout", 0.05 + vrnd_n(&rng, 30) / 100.0);
    struct agent *C = new_agent(R_CLIENT, c.tp, vmix(c.sub_seed ^ 6));
    apply_plan(&C->ep.plan, c.plan_class);
    {
        struct vs_scope sc = { .active = true, .nonblocking = true, .api = "xcm_connect_a", .ep = C->ep.id, .plan = &C->ep.plan };
        vs_enter(&sc); C->ep.s = xcm_connect_a(caddr, cm); int se = errno; vs_leave();
        vs_note("API ep%d xcm_connect_a(%s) -> %s e%d", C->ep.id, caddr, C->ep.s ? "conn" : "NULL", C->ep.s ? 0 : se);
        errno = se;
    }
    xcm_attr_map_destroy(cm);
    int verdict = 0;
    if (!C->ep.s) { vobs("connect_failed_immediately", 1); VLOG("connect failed %s: %s", caddr, strerror(errno)); C->failed = true; }
    else {
        C->ep.fd_num = vx_fd(&C->ep);
        C->want_send = c.nmsg; C->want_recv = c.bidir; C->recv_once = vrnd_p(&rng, 50); C->send_once = vrnd_p(&rng, 50);
        C->cond_policy = (int)vrnd_n(&rng, 3);
        C->close_when_done = false;
        if (c.speculative_start) act(C);
        verdict = reactor(30, "traffic");
        if (verdict == 2) { vobs("reactor_gave_up", 1); }
        if (verdict == 0) {
            vobs("reactor_completed", 1);
            for (int i = 0; i < n_ag; i++) if (ag[i].role != R_SERVER && ag[i].peer && !ag[i].failed && !ag[i].peer->failed)
                veng_check_delivery(idx, &ag[i].ep, &ag[i].peer->ep, true, ctx);
            /* quiescent: everything accepted has been delivered, nothing buffered */
            if (prop == PROP_C16 && vviol_count() == 0) {
                bool all_fin = true;
                for (int i = 0; i < n_ag; i++) if (ag[i].role != R_SERVER && ag[i].ep.s && !ag[i].failed && vx_finish(&ag[i].ep) != 0) all_fin = false;
                if (all_fin) {
                    vobs("quiescent_pairs_probed", 1);
                    for (int i = 0; i < n_ag && vviol_count() == 0; i++) if (ag[i].role != R_SERVER && ag[i].ep.s && !ag[i].failed) { ag[i].ep.plan.quiet = true; if (ag[i].peer) ag[i].peer->ep.plan.quiet = true; probe_conn(&ag[i], ag[i].peer); }
                    if (vviol_count() == 0) probe_server(S);
                    if (vviol_count() == 0 && c.ctl) probe_ctl_quiet();
                }
            }
            if (vviol_count() == 0 && C->ep.s && !C->failed && C->peer && C->peer->ep.s && !C->peer->failed && vrnd_p(&rng, prop == PROP_C04 ? 40 : 15)) {
                bool client_blocked = vrnd_p(&rng, 50);
                probe_backpressure(client_blocked ? C : C->peer, client_blocked ? C->peer : C);
            }
            /* close phase: the client closes; the accepted side, awaiting RECEIVABLE, must be told */
            if (vviol_count() == 0 && C->ep.s && !C->failed && C->peer && C->peer->ep.s) {
                C->want_recv = false; C->close_when_done = true; C->last_cond = -1;
                C->peer->want_recv = true; C->peer->last_cond = -1;
                act(C);     /* speculative finish + close */
                int v2 = reactor(20, "close");
                if (v2 == 0) { vobs("close_phase_completed", 1); if (C->peer->ep.term == 1) vobs("close_seen_as_zero", 1); else vobs("close_seen_as_error", 1); }
                else if (v2 == 2) vobs("reactor_gave_up", 1);
            }
        }
    }
    long hs = 0; for (int i = 0; i < n_ag; i++) hs += ag[i].ep.plan.n_eagain_send + ag[i].ep.plan.n_eagain_recv + ag[i].ep.plan.n_short_send + ag[i].ep.plan.n_short_recv;
    vobs("injected_faults_below", hs);
    long wk = 0; for (int i = 0; i < n_ag; i++) wk += ag[i].wakeups;
    vobs_max("max_wakeups_in_a_case", wk);
    bool nontrivial = wk >= 3 && verdict == 0;
    char cl[96]; snprintf(cl, sizeof cl, "%s/dns%d/topo%d", vtp_name[c.tp], c.use_dns, c.topology); vclass(cl);
    if (nontrivial) { char sg[160]; snprintf(sg, sizeof sg, "%s|%d|%d|%d|%d|%d|%d|%d", vtp_name[c.tp], c.bidir, c.plan_class, c.speculative_start, c.use_dns ? c.dns_deliver + 1 : 0, c.topology, c.size_class, C->cond_policy); vsig_str(sg); }
    if (idx < 2) vsample(cj);
    for (int i = 0; i < n_ag; i++) { if (ag[i].ep.s) vx_close(&ag[i].ep); veng_ep_free(&ag[i].ep); }
    if (have_na) vnet_noanswer_close(&na);
    vdns_enable(false);
    vcase_done(nontrivial);
}

int main(int argc, char **argv)
{
    vparse_args(argc, argv);
    prop = !strcmp(va.prop, "C16") ? PROP_C16 : PROP_C04;
    signal(SIGPIPE, SIG_IGN);
    veng_global_init();
    for (long i = 0; i < va.cases; i++) {
        if (va.only >= 0 && i != va.only) continue;
        if (va.only >= 0) { one_case(i, NULL); continue; }
        struct ecase c; gen_case(&c, i);
        char cls[96]; snprintf(cls, sizeof cls, "%s:%s:%s", va.prop, vtp_name[c.tp], c.blocking_scenario ? "blocking" : "reactor");
        vfork_case(i, one_case, NULL, 120, cls);
        if (vstop_early()) break;
    }
    vsummary(true);
    return 0;
}
