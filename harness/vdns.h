/* vdns.h - stub resolver: interposes the c-ares entry points XCM uses, so a
 * test case decides what a name resolves to, when, and whether at all. */
#ifndef VDNS_H
#define VDNS_H
#include <stdbool.h>
#include <netinet/in.h>

enum vdns_deliver { VDNS_SYNC, VDNS_AFTER_PROCESS, VDNS_AFTER_MS, VDNS_NEVER };

struct vdns_addr { int family; unsigned char a[16]; };

struct vdns_plan {
    char name[256];
    int status;                 /* 0 = ARES_SUCCESS, else an ARES_E* status delivered to the callback */
    int n; struct vdns_addr addrs[48];
    enum vdns_deliver deliver;
    int after;                  /* process calls or milliseconds */
};

void vdns_enable(bool on);                 /* off: calls go to the real c-ares */
void vdns_reset(void);
void vdns_set(const struct vdns_plan *p);  /* plan for p->name (replaces an earlier one) */
/* observations */
int vdns_queries(void);                    /* ares_getaddrinfo calls seen */
int vdns_pending(void);                    /* queries whose callback has not run */
int vdns_callbacks(void);
int vdns_scheduled(void);                  /* pending queries whose answer is due at a future time (VDNS_AFTER_MS) */
int vdns_destroyed_pending(void);          /* channels destroyed with a pending query */
void vdns_release_all(void);               /* deliver everything still pending (VDNS_NEVER included) at the next process call */

/* helpers */
void vdns_addr4(struct vdns_addr *a, const char *dotted);
void vdns_addr6(struct vdns_addr *a, const char *text);
void vdns_addr_str(const struct vdns_addr *a, int port, char *out, size_t cap);  /* as the shim's connect log prints it */

#endif
