#include "veng.h"

#include <linux/sockios.h>
#include <poll.h>
#include <sys/ioctl.h>
#include <sys/stat.h>

const char *const vtp_name[TP_N] = { "ux", "uxf", "tcp", "tls", "utls-ux", "utls-tls", "utls-fallback", "btcp", "btls" };
const char *const vcnt_name[8] = { "xcm.to_app_bytes", "xcm.from_app_bytes", "xcm.to_lower_bytes", "xcm.from_lower_bytes",
                                   "xcm.to_app_msgs", "xcm.from_app_msgs", "xcm.to_lower_msgs", "xcm.from_lower_msgs" };

struct vpki_ent *veng_ca, *veng_leaf;
char veng_tls_dir[512];
static int addr_ctr;

void veng_global_init(void)
{
    char p[600];
    snprintf(veng_tls_dir, sizeof veng_tls_dir, "%s/tls", va.dir);
    struct vpki_opts o; vpki_opts_default(&o); o.is_ca = true;
    veng_ca = vpki_make("verif-root", NULL, &o);
    vpki_opts_default(&o); o.eku = VPKI_EKU_BOTH;
    veng_leaf = vpki_make("verif-peer", veng_ca, &o);
    if (vpki_write_dir(veng_tls_dir, veng_leaf->cert_pem, veng_leaf->key_pem, veng_ca->cert_pem, NULL) < 0) {
        vinconclusive("cannot write TLS credentials to %s", veng_tls_dir); exit(2);
    }
    setenv("XCM_TLS_CERT", veng_tls_dir, 1);
    if (!getenv("VERIF_KEEP_CTL")) {
        snprintf(p, sizeof p, "%s/no-such-ctl-dir", va.dir);
        setenv("XCM_CTL", p, 1);
    }
    snprintf(p, sizeof p, "%s/uxf", va.dir); mkdir(p, 0700);
    vs_ledger_reset();
}

void veng_ep_init(struct vep *e, int id, enum vtp tp, uint64_t key)
{
    memset(e, 0, sizeof *e);
    e->id = id; e->tp = tp; e->key = key; e->bytestream = vtp_is_bytestream(tp); e->fd_num = -1;
    vs_plan_init(&e->plan, vmix(key ^ 0xabcdef));
    e->plan.wire = tp == TP_TCP ? VS_WIRE_XCM : vtp_is_tls(tp) ? VS_WIRE_TLS : VS_WIRE_NONE;
    pthread_mutex_init(&e->mu, NULL);
}

void veng_ep_free(struct vep *e)
{
    free(e->att); free(e->rx); free(e->rx_stream);
    e->att = NULL; e->rx = NULL; e->rx_stream = NULL;
}

bool veng_is_conn_errno(int e)
{
    return e == ECONNRESET || e == EPIPE || e == ETIMEDOUT || e == EHOSTUNREACH || e == ENETUNREACH ||
           e == ECONNREFUSED || e == EPROTO || e == ECONNABORTED || e == ENOTCONN;
}

#define SCOPE(e, name) struct vs_scope _sc = { .active = true, .nonblocking = !(e)->blocking, .api = name, .ep = (e)->id, .plan = &(e)->plan }; vs_enter(&_sc)

int vx_send(struct vep *e, const void *buf, size_t len)
{
    SCOPE(e, "xcm_send");
    vs_note("API ep%d xcm_send(len %zu)", e->id, len);
    errno = 0;
    int rc = xcm_send(e->s, buf, len);
    int se = errno;
    vs_leave();
    vs_note("API ep%d xcm_send -> %d e%d", e->id, rc, rc < 0 ? se : 0);
    if (rc < 0 && veng_is_conn_errno(se)) e->conn_error_seen = true;
    errno = se;
    return rc;
}

int vx_receive(struct vep *e, void *buf, size_t cap)
{
    SCOPE(e, "xcm_receive");
    vs_note("API ep%d xcm_receive(cap %zu)", e->id, cap);
    errno = 0;
    int rc = xcm_receive(e->s, buf, cap);
    int se = errno;
    vs_leave();
    vs_note("API ep%d xcm_receive -> %d e%d", e->id, rc, rc < 0 ? se : 0);
    if (rc < 0 && veng_is_conn_errno(se)) e->conn_error_seen = true;
    errno = se;
    return rc;
}

int vx_finish(struct vep *e)
{
    SCOPE(e, "xcm_finish");
    errno = 0;
    int rc = xcm_finish(e->s);
    int se = errno;
    vs_leave();
    vs_note("API ep%d xcm_finish -> %d e%d", e->id, rc, rc < 0 ? se : 0);
    if (rc < 0 && veng_is_conn_errno(se)) e->conn_error_seen = true;
    errno = se;
    return rc;
}

int vx_await(struct vep *e, int cond)
{
    SCOPE(e, "xcm_await");
    int rc = xcm_await(e->s, cond);
    int se = errno;
    vs_leave();
    vs_note("API ep%d xcm_await(%d) -> %d", e->id, cond, rc);
    errno = se;
    return rc;
}

int vx_fd(struct vep *e)
{
    SCOPE(e, "xcm_fd");
    int rc = xcm_fd(e->s);
    int se = errno;
    vs_leave();
    errno = se;
    return rc;
}

int vx_close(struct vep *e)
{
    if (!e->s) return 0;
    SCOPE(e, "xcm_close");
    vs_note("API ep%d xcm_close", e->id);
    int rc = xcm_close(e->s);
    vs_leave();
    e->s = NULL; e->closed_by_us = true;
    return rc;
}

int vx_set_blocking(struct vep *e, bool b)
{
    SCOPE(e, "xcm_set_blocking");
    _sc.nonblocking = false; vs_enter(&_sc);   /* the switch itself may wait (documented) */
    int rc = xcm_set_blocking(e->s, b);
    int se = errno;
    vs_leave();
    if (rc == 0) e->blocking = b;
    vs_note("API ep%d xcm_set_blocking(%d) -> %d", e->id, b, rc);
    errno = se;
    return rc;
}

int vx_get_int64(struct vep *e, const char *name, int64_t *v)
{
    SCOPE(e, "xcm_attr_get");
    int rc = xcm_attr_get_int64(e->s, name, v);
    int se = errno;
    vs_leave();
    errno = se;
    return rc;
}

bool vx_read_counters(struct vep *e, struct vcnt *c)
{
    memset(c, 0, sizeof *c);
    int n = e->bytestream ? 4 : 8;
    for (int i = 0; i < n; i++)
        if (vx_get_int64(e, vcnt_name[i], &c->v[i]) < 0) { c->ok = false; return false; }
    c->ok = true;
    return true;
}

/* ---- content ---- */
void veng_fill(uint64_t key, uint64_t id, unsigned char *buf, size_t len)
{
    uint64_t base = vmix(key ^ vmix(id * 0x100000001b3ULL + 1));
    size_t i = 0; uint64_t blk = 0;
    while (i < len) {
        uint64_t w = vmix(base + blk++);
        size_t k = len - i < 8 ? len - i : 8;
        memcpy(buf + i, &w, k); i += k;
    }
}
uint64_t veng_hash(const unsigned char *buf, size_t len) { return vhash_mem(buf, len); }

long veng_att_begin(struct vep *e, uint32_t len)
{
    pthread_mutex_lock(&e->mu);
    if (e->n_att == e->cap_att) { e->cap_att = e->cap_att ? e->cap_att * 2 : 256; e->att = realloc(e->att, (size_t)e->cap_att * sizeof *e->att); }
    long i = e->n_att++;
    e->att[i] = (struct vatt){ .id = e->next_id++, .len = len, .accepted = 0, .state = 0, .err = 0 };
    pthread_mutex_unlock(&e->mu);
    return i;
}

void veng_att_end(struct vep *e, long idx, int rc, int err)
{
    pthread_mutex_lock(&e->mu);
    struct vatt *a = &e->att[idx];
    if (rc >= 0) {
        a->state = 1;
        a->accepted = e->bytestream ? (uint32_t)rc : a->len;
        e->n_ok++; e->bytes_ok += a->accepted;
    } else { a->state = -1; a->err = err; }
    pthread_mutex_unlock(&e->mu);
}

void veng_rx_add(struct vep *e, const unsigned char *buf, int rc, size_t cap)
{
    pthread_mutex_lock(&e->mu);
    if (e->bytestream) {
        if (e->rx_stream_len + (size_t)rc > e->rx_stream_cap) {
            e->rx_stream_cap = (e->rx_stream_len + (size_t)rc) * 2 + 4096;
            e->rx_stream = realloc(e->rx_stream, e->rx_stream_cap);
        }
        memcpy(e->rx_stream + e->rx_stream_len, buf, (size_t)rc); e->rx_stream_len += (size_t)rc;
    } else {
        if (e->n_rx == e->cap_rx) { e->cap_rx = e->cap_rx ? e->cap_rx * 2 : 256; e->rx = realloc(e->rx, (size_t)e->cap_rx * sizeof *e->rx); }
        struct vrx *r = &e->rx[e->n_rx];
        r->len = (uint32_t)rc; r->cap = (uint32_t)cap; r->hash = veng_hash(buf, (size_t)rc);
        memset(r->head, 0, 16); memcpy(r->head, buf, rc < 16 ? (size_t)rc : 16);
    }
    e->n_rx++; e->rx_bytes += (uint64_t)rc;
    pthread_mutex_unlock(&e->mu);
}

void veng_ctx(char *buf, size_t cap, const char *fmt, ...)
{ va_list ap; va_start(ap, fmt); vsnprintf(buf, cap, fmt, ap); va_end(ap); }

const char *veng_detail(const char *ctx)
{
    static __thread char det[16000];
    static __thread char ringbuf[12000];
    vs_ring_dump(ringbuf, sizeof ringbuf);
    FILE *f = fmemopen(det, sizeof det, "w");
    fputs("\"ctx\":", f); vjson_escape(f, ctx ? ctx : "");
    fputs(",\"events\":", f); vjson_escape(f, ringbuf);
    fclose(f);
    return det;
}

/* classify a received message that does not match the expected ledger entry */
static const char *classify(struct vep *tx, const struct vrx *r, long expect_idx, long *which)
{
    unsigned char *tmp = malloc(70000);
    const char *cls = "altered-or-foreign";
    for (long i = 0; i < tx->n_att; i++) {
        struct vatt *a = &tx->att[i];
        uint32_t l = a->len; if (l > 66000) continue;
        if (r->len > l) continue;
        veng_fill(tx->key, a->id, tmp, l);
        if (veng_hash(tmp, r->len) == r->hash && (r->len == l || r->len == r->cap)) {
            *which = i;
            if (a->state == -1) cls = "failed-send-delivered";
            else if (i < expect_idx) cls = "duplicate-or-reordered";
            else cls = "skipped-ahead";
            break;
        }
    }
    free(tmp);
    return cls;
}

int veng_check_delivery(long case_idx, struct vep *tx, struct vep *rx, bool complete, const char *ctx)
{
    const char *taint = tx->taint;
    int nv = 0;
    char key[128];
    if (!tx->bytestream) {
        unsigned char *tmp = malloc(70000);
        long ai = 0;   /* index into attempts */
        for (long k = 0; k < rx->n_rx; k++) {
            struct vrx *r = &rx->rx[k];
            /* next committed (or still pending: the call may yet have succeeded) attempt */
            while (ai < tx->n_att && tx->att[ai].state == -1) ai++;
            bool bad = false; const char *cls = "";
            long which = -1;
            if (r->len == 0) { bad = true; cls = "empty-message"; }
            else if (ai >= tx->n_att) { bad = true; cls = classify(tx, r, ai, &which); if (!strcmp(cls, "altered-or-foreign")) cls = "more-than-accepted"; }
            else {
                struct vatt *a = &tx->att[ai];
                uint32_t want = a->len < r->cap ? a->len : r->cap;
                veng_fill(tx->key, a->id, tmp, a->len);
                if (r->len != want) { bad = true; cls = classify(tx, r, ai, &which); if (!strcmp(cls, "altered-or-foreign")) cls = r->len < want ? "partial-message" : "merged-or-overlong"; }
                else if (veng_hash(tmp, want) != r->hash) { bad = true; cls = classify(tx, r, ai, &which); }
            }
            if (bad) {
                snprintf(key, sizeof key, "delivery:%s:%s", cls, vtp_name[tx->tp]);
                vviol(case_idx, "delivery", key, veng_detail(ctx),
                      "%s: receive #%ld returned %u bytes (capacity %u) which is not attempt #%ld of the sender (len %u, state %d); classified %s (matches attempt %ld); sender attempts %ld ok %ld; %s",
                      vtp_name[tx->tp], k, r->len, r->cap, ai, ai < tx->n_att ? tx->att[ai].len : 0, ai < tx->n_att ? tx->att[ai].state : -9, cls, which, tx->n_att, tx->n_ok, ctx);
                nv++; break;
            }
            ai++;
        }
        free(tmp);
        if (!nv && complete) {
            /* every committed message must have been delivered */
            long committed = 0; for (long i = 0; i < tx->n_att; i++) if (tx->att[i].state == 1) committed++;
            if (rx->n_rx < committed) {
                snprintf(key, sizeof key, "delivery:lost:%s", vtp_name[tx->tp]);
                vviol(case_idx, "delivery", key, veng_detail(ctx), "%s: %ld messages accepted (xcm_send returned 0) but only %ld delivered although the connection ended gracefully/quiescent; %s",
                      vtp_name[tx->tp], committed, rx->n_rx, ctx);
                nv++;
            }
        }
        /* a failed attempt must never have been delivered: covered by classify() on mismatch, plus count check */
        if (!nv) {
            long committed_or_pending = 0; for (long i = 0; i < tx->n_att; i++) if (tx->att[i].state != -1) committed_or_pending++;
            if (rx->n_rx > committed_or_pending) {
                snprintf(key, sizeof key, "delivery:more-than-accepted:%s", vtp_name[tx->tp]);
                vviol(case_idx, "delivery", key, veng_detail(ctx), "%s: %ld delivered, only %ld accepted; %s", vtp_name[tx->tp], rx->n_rx, committed_or_pending, ctx);
                nv++;
            }
        }
    } else {
        /* byte stream: received must be a prefix of the concatenation of accepted prefixes */
        size_t pos = 0; unsigned char *tmp = malloc(1 << 20);
        bool pending_seen = false;
        for (long i = 0; i < tx->n_att && pos <= rx->rx_stream_len; i++) {
            struct vatt *a = &tx->att[i];
            if (a->state == -1) continue;
            uint32_t n = a->state == 1 ? a->accepted : a->len;   /* pending: up to len */
            if (a->state == 0) pending_seen = true;
            if (n > (1 << 20)) n = 1 << 20;
            veng_fill(tx->key, a->id, tmp, n);
            size_t avail = rx->rx_stream_len - pos;
            size_t cmp = avail < n ? avail : n;
            if (cmp > 0 && memcmp(rx->rx_stream + pos, tmp, cmp) != 0) {
                size_t off = 0; while (off < cmp && rx->rx_stream[pos + off] == tmp[off]) off++;
                /* does the stream continue with bytes of a refused call? */
                const char *cls = "altered";
                for (long j = 0; j < tx->n_att; j++) if (tx->att[j].state == -1 && tx->att[j].len > 0) {
                    unsigned char t2[32]; uint32_t l2 = tx->att[j].len < 32 ? tx->att[j].len : 32; veng_fill(tx->key, tx->att[j].id, t2, l2);
                    size_t left = rx->rx_stream_len - (pos + off); size_t c2 = left < l2 ? left : l2;
                    if (c2 >= 4 && !memcmp(rx->rx_stream + pos + off, t2, c2)) { cls = "bytes-of-refused-call"; break; }
                }
                snprintf(key, sizeof key, "stream:%s:%s", taint ? taint : cls, vtp_name[tx->tp]);
                vviol(case_idx, "delivery", key, veng_detail(ctx), "%s: received stream deviates at offset %zu (inside send call #%ld, accepted %u of %u, at +%zu): %s; %s",
                      vtp_name[tx->tp], pos + off, i, a->accepted, a->len, off, cls, ctx);
                nv++; break;
            }
            pos += cmp;
            if (cmp < n) break;
        }
        free(tmp);
        if (!nv && pos < rx->rx_stream_len && !pending_seen) {
            snprintf(key, sizeof key, "stream:%s:%s", taint ? taint : "more-than-accepted", vtp_name[tx->tp]);
            vviol(case_idx, "delivery", key, veng_detail(ctx), "%s: receiver obtained %zu bytes, sender's accepted ranges total %" PRIu64 "; %s", vtp_name[tx->tp], rx->rx_stream_len, tx->bytes_ok, ctx);
            nv++;
        }
        if (!nv && complete && rx->rx_stream_len < tx->bytes_ok) {
            snprintf(key, sizeof key, "stream:lost:%s", vtp_name[tx->tp]);
            vviol(case_idx, "delivery", key, veng_detail(ctx), "%s: %" PRIu64 " bytes accepted but only %zu delivered at a graceful/quiescent end; %s", vtp_name[tx->tp], tx->bytes_ok, rx->rx_stream_len, ctx);
            nv++;
        }
    }
    return nv;
}

bool veng_kernel_idle(struct vep *a, struct vep *b, long *inq_out, long *outq_out)
{
    long inq = 0, outq = 0;
    struct vep *eps[2] = { a, b };
    for (int i = 0; i < 2; i++) {
        if (!eps[i] || !eps[i]->s) continue;
        int fd = vs_ledger_data_fd(eps[i]->id);
        if (fd < 0) continue;
        int v = 0;
        if (ioctl(fd, FIONREAD, &v) == 0) inq += v;
        v = 0;
        if (ioctl(fd, SIOCOUTQ, &v) == 0) outq += v;
    }
    if (inq_out) *inq_out = inq;
    if (outq_out) *outq_out = outq;
    return inq == 0 && outq == 0;
}

/* ---- pair establishment ---- */
static void arm_fail(struct vs_plan *p, int call, int nth_from_now, int err)
{ p->fail_call = call; p->fail_at = (int)p->n_call[call] + nth_from_now; p->fail_errno = err; p->fail_fired = false; }

int veng_pair(enum vtp tp, struct vep *cl, struct vep *ac, struct vep *sv, const struct vpair_opts *o,
              char *why, size_t why_cap)
{
    char saddr[256], caddr[256];
    int n = ++addr_ctr;
    switch (tp) {
    case TP_UX: snprintf(saddr, sizeof saddr, "ux:verif-%d-%d-%d", (int)getpid(), va.worker, n); break;
    case TP_UXF: snprintf(saddr, sizeof saddr, "uxf:%s/uxf/s%d-%d", va.dir, (int)getpid(), n); break;
    case TP_TCP: snprintf(saddr, sizeof saddr, "tcp:127.0.0.1:0"); break;
    case TP_TLS: snprintf(saddr, sizeof saddr, "tls:127.0.0.1:0"); break;
    case TP_UTLS_UX: case TP_UTLS_TLS: case TP_UTLS_FALLBACK: snprintf(saddr, sizeof saddr, "utls:127.0.0.1:0"); break;
    case TP_BTCP: snprintf(saddr, sizeof saddr, "btcp:127.0.0.1:0"); break;
    case TP_BTLS: snprintf(saddr, sizeof saddr, "btls:127.0.0.1:0"); break;
    default: return -1;
    }
    if (o && o->server_addr) snprintf(saddr, sizeof saddr, "%s", o->server_addr);
    struct xcm_attr_map *sa = xcm_attr_map_create();
    xcm_attr_map_add_bool(sa, "xcm.blocking", false);
    if (o && o->server_attrs) xcm_attr_map_add_all(sa, o->server_attrs);
    if (vtp_is_bytestream(tp)) xcm_attr_map_add_str(sa, "xcm.service", vrnd_p(&(vrng){ cl->key }, 50) ? "bytestream" : "any");
    {
        struct vs_scope sc = { .active = true, .nonblocking = true, .api = "xcm_server_a", .ep = sv->id, .plan = &sv->plan };
        vs_enter(&sc);
        sv->s = xcm_server_a(saddr, sa);
        vs_leave();
    }
    xcm_attr_map_destroy(sa);
    if (!sv->s) { snprintf(why, why_cap, "xcm_server_a(%s) failed: %s", saddr, strerror(errno)); return -1; }
    sv->is_server = true;
    const char *la = xcm_local_addr(sv->s);
    if (!la) { snprintf(why, why_cap, "no local addr"); return -1; }
    snprintf(caddr, sizeof caddr, "%s", la);
    if (tp == TP_UTLS_TLS) snprintf(caddr, sizeof caddr, "tls:%s", strchr(la, ':') + 1);
    if (o && o->connect_addr) snprintf(caddr, sizeof caddr, "%s", o->connect_addr);

    struct xcm_attr_map *ca = xcm_attr_map_create();
    xcm_attr_map_add_bool(ca, "xcm.blocking", false);
    if (vtp_is_bytestream(tp)) xcm_attr_map_add_str(ca, "xcm.service", vrnd_p(&(vrng){ ac->key }, 50) ? "bytestream" : "any");
    struct xcm_attr_map *aa = xcm_attr_map_create();
    if (o && o->conn_attrs) xcm_attr_map_add_all(ca, o->conn_attrs);
    if (o && o->accept_attrs) xcm_attr_map_add_all(aa, o->accept_attrs);
    if (o && o->user_timeout && vtp_is_tcp_based(tp)) {
        if (tp != TP_UTLS_UX) xcm_attr_map_add_int64(ca, "tcp.user_timeout", o->user_timeout);
    }
    bool saved_quiet_c = cl->plan.quiet, saved_quiet_a = ac->plan.quiet;
    if (!(o && o->plan_during_setup)) { cl->plan.quiet = true; ac->plan.quiet = true; }
    if (tp == TP_UTLS_FALLBACK) arm_fail(&cl->plan, VS_CONNECT, 1, ECONNREFUSED);
    {
        struct vs_scope sc = { .active = true, .nonblocking = true, .api = "xcm_connect_a", .ep = cl->id, .plan = &cl->plan };
        vs_enter(&sc);
        cl->s = xcm_connect_a(caddr, ca);
        vs_leave();
    }
    cl->plan.fail_at = 0;
    xcm_attr_map_destroy(ca);
    if (!cl->s) { snprintf(why, why_cap, "xcm_connect_a(%s) failed: %s", caddr, strerror(errno)); xcm_attr_map_destroy(aa); return -1; }
    int rc = -1;
    int max_rounds = o && o->max_rounds ? o->max_rounds : 20000;
    for (int it = 0; it < max_rounds; it++) {
        if (o && o->pump) o->pump(o->pump_arg);
        if (!ac->s) {
            struct vs_scope sc = { .active = true, .nonblocking = true, .api = "xcm_accept_a", .ep = ac->id, .plan = &ac->plan };
            vs_enter(&sc);
            ac->s = xcm_accept_a(sv->s, aa);
            int se = errno;
            vs_leave();
            if (!ac->s && se != EAGAIN) { snprintf(why, why_cap, "xcm_accept_a failed: %s", strerror(se)); break; }
        }
        int fc = vx_finish(cl); int fce = errno;
        if (fc < 0 && fce != EAGAIN) { snprintf(why, why_cap, "client finish during setup: %s", strerror(fce)); errno = fce; break; }
        int fa = -1, fae = EAGAIN;
        if (ac->s) { fa = vx_finish(ac); fae = errno; }
        if (fa < 0 && fae != EAGAIN) { snprintf(why, why_cap, "accepted finish during setup: %s", strerror(fae)); break; }
        if (fc == 0 && fa == 0) { rc = 0; break; }
        if (it > 50) { struct pollfd none; vs_real_poll(&none, 0, 1); }
    }
    xcm_attr_map_destroy(aa);
    cl->plan.quiet = saved_quiet_c; ac->plan.quiet = saved_quiet_a;
    if (rc == 0) {
        cl->fd_num = vx_fd(cl); ac->fd_num = vx_fd(ac);
        if (o && o->user_timeout && vtp_is_tcp_based(tp) && tp != TP_UTLS_UX) {
            struct vs_scope sc = { .active = true, .nonblocking = true, .api = "xcm_attr_set", .ep = ac->id, .plan = &ac->plan };
            vs_enter(&sc); xcm_attr_set_int64(ac->s, "tcp.user_timeout", o->user_timeout); vs_leave();
        }
    } else if (!why[0]) snprintf(why, why_cap, "establishment did not complete in 20000 rounds");
    return rc;
}
