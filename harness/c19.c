/* C19 - attribute maps are finite maps; attribute paths are canonical.
 *
 * Reference model: an array-based finite map in this file.  After every
 * operation the touched maps are compared with the model (targeted), and
 * every N operations completely (size, foreach as a set, every typed getter,
 * equality in both directions against a shuffled rebuild).  All names and
 * values handed to the library live in exact-size heap blocks that are
 * scribbled and freed right after the call, so a map that kept the caller's
 * pointer instead of a copy is caught by ASan or by the byte comparison.
 *
 * Paths: structural generator + independent printer; parse/print round trip,
 * canonicalisation, must-reject set, arbitrary strings. */
#include "vcommon.h"

#include <xcm_attr_map.h>
#include "attr_path.h"

static long cur_case;

/* ------------------------------------------------------------ model ---- */
struct ment { char *name; enum xcm_attr_type type; size_t len; unsigned char *val; };
struct mmap { struct ment *e; int n, cap; };

static void mm_free_ent(struct ment *e) { free(e->name); free(e->val); }
static int mm_find(const struct mmap *m, const char *name)
{ for (int i = 0; i < m->n; i++) if (!strcmp(m->e[i].name, name)) return i; return -1; }
static void mm_del(struct mmap *m, const char *name)
{ int i = mm_find(m, name); if (i < 0) return; mm_free_ent(&m->e[i]); m->e[i] = m->e[--m->n]; }
static void mm_add(struct mmap *m, const char *name, enum xcm_attr_type t, const void *v, size_t len)
{
    unsigned char *copy = malloc(len ? len : 1); memcpy(copy, v, len);
    char *ncopy = strdup(name);
    mm_del(m, name);
    if (m->n == m->cap) { m->cap = m->cap ? m->cap * 2 : 16; m->e = realloc(m->e, (size_t)m->cap * sizeof *m->e); }
    m->e[m->n++] = (struct ment){ ncopy, t, len, copy };
}
static void mm_clear(struct mmap *m) { for (int i = 0; i < m->n; i++) mm_free_ent(&m->e[i]); free(m->e); memset(m, 0, sizeof *m); }
static void mm_clone(struct mmap *dst, const struct mmap *src)
{ memset(dst, 0, sizeof *dst); for (int i = 0; i < src->n; i++) mm_add(dst, src->e[i].name, src->e[i].type, src->e[i].val, src->e[i].len); }
static bool mm_equal(const struct mmap *a, const struct mmap *b)
{
    if (a->n != b->n) return false;
    for (int i = 0; i < a->n; i++) {
        int j = mm_find(b, a->e[i].name);
        if (j < 0 || b->e[j].type != a->e[i].type || b->e[j].len != a->e[i].len ||
            memcmp(b->e[j].val, a->e[i].val, a->e[i].len)) return false;
    }
    return true;
}

/* ---------------------------------------------------------- checking ---- */
#define NPOOL 5
static struct xcm_attr_map *pool[NPOOL];
static struct mmap model[NPOOL];
static char oplog[4096]; static size_t oplog_len;

static void logop(const char *fmt, ...)
{
    char t[160]; va_list ap; va_start(ap, fmt); vsnprintf(t, sizeof t, fmt, ap); va_end(ap);
    size_t n = strlen(t);
    if (oplog_len + n + 2 >= sizeof oplog) { memmove(oplog, oplog + 1024, oplog_len - 1024); oplog_len -= 1024; }
    memcpy(oplog + oplog_len, t, n); oplog_len += n; oplog[oplog_len++] = ';'; oplog[oplog_len] = 0;
}

static void mviol(const char *rule, const char *fmt, ...)
{
    char msg[400]; va_list ap; va_start(ap, fmt); vsnprintf(msg, sizeof msg, fmt, ap); va_end(ap);
    char det[2600]; FILE *f = fmemopen(det, sizeof det, "w");
    fputs("\"recent_ops\":", f);
    const char *tail = oplog_len > 1800 ? oplog + oplog_len - 1800 : oplog;
    vjson_escape(f, tail); fclose(f);
    char key[64]; snprintf(key, sizeof key, "map:%s", rule);
    vviol(cur_case, rule, key, det, "%s", msg);
}

static void check_entry(int k, const struct ment *e)
{
    struct xcm_attr_map *m = pool[k];
    enum xcm_attr_type t = 99; size_t len = (size_t)-1;
    const void *v = xcm_attr_map_get(m, e->name, &t, &len);
    if (!v) { mviol("lookup-missing", "map %d: '%s' present in the model but xcm_attr_map_get gives NULL", k, e->name); return; }
    if (t != e->type || len != e->len) { mviol("lookup-type-len", "map %d: '%s' type/len %d/%zu, model %d/%zu", k, e->name, t, len, e->type, e->len); return; }
    if (memcmp(v, e->val, len)) { mviol("value-not-exact", "map %d: '%s' bytes differ from what was supplied (len %zu)", k, e->name, len); return; }
    if (!xcm_attr_map_exists(m, e->name)) mviol("exists", "map %d: exists('%s') false", k, e->name);
    const void *tv[5] = {
        xcm_attr_map_get_bool(m, e->name), xcm_attr_map_get_int64(m, e->name),
        xcm_attr_map_get_double(m, e->name), xcm_attr_map_get_str(m, e->name),
        xcm_attr_map_get_bin(m, e->name) };
    static const enum xcm_attr_type tt[5] = { xcm_attr_type_bool, xcm_attr_type_int64, xcm_attr_type_double, xcm_attr_type_str, xcm_attr_type_bin };
    for (int i = 0; i < 5; i++) {
        if (tt[i] == e->type) {
            if (tv[i] != v) mviol("typed-lookup", "map %d: typed getter %d for '%s' returned %p, generic %p", k, i, e->name, tv[i], v);
        } else if (tv[i] != NULL)
            mviol("typed-lookup-mismatch", "map %d: getter of type %d returned non-NULL for '%s' of type %d", k, tt[i], e->name, e->type);
    }
    vobs("typed_lookups", 5);
}

static void check_absent(int k, const char *name)
{
    struct xcm_attr_map *m = pool[k];
    if (xcm_attr_map_get(m, name, NULL, NULL) || xcm_attr_map_exists(m, name) ||
        xcm_attr_map_get_bool(m, name) || xcm_attr_map_get_int64(m, name) || xcm_attr_map_get_double(m, name) ||
        xcm_attr_map_get_str(m, name) || xcm_attr_map_get_bin(m, name))
        mviol("lookup-ghost", "map %d: '%s' absent in the model but found in the map", k, name);
}

struct fe_state { int k; int count; struct mmap seen; bool dup; };
static void fe_cb(const char *name, enum xcm_attr_type type, const void *value, size_t len, void *user)
{
    struct fe_state *st = user;
    st->count++;
    if (mm_find(&st->seen, name) >= 0) st->dup = true;
    mm_add(&st->seen, name, type, value, len);
}

static void check_full(int k)
{
    struct xcm_attr_map *m = pool[k]; struct mmap *mo = &model[k];
    if (xcm_attr_map_size(m) != (size_t)mo->n) mviol("size", "map %d: size %zu, model %d", k, xcm_attr_map_size(m), mo->n);
    for (int i = 0; i < mo->n; i++) check_entry(k, &mo->e[i]);
    struct fe_state st = { .k = k };
    xcm_attr_map_foreach(m, fe_cb, &st);
    if (st.dup) mviol("foreach-duplicate", "map %d: foreach visited a name twice", k);
    if (st.count != mo->n || !mm_equal(&st.seen, mo)) mviol("foreach", "map %d: foreach visited %d entries not matching the model's %d", k, st.count, mo->n);
    mm_clear(&st.seen);
    vobs("full_checks", 1);
}

static void check_equal_pair(int a, int b)
{
    bool exp = mm_equal(&model[a], &model[b]);
    bool g1 = xcm_attr_map_equal(pool[a], pool[b]), g2 = xcm_attr_map_equal(pool[b], pool[a]);
    vobs(exp ? "equal_true" : "equal_false", 1);
    if (g1 != exp || g2 != exp) mviol("equal", "equal(%d,%d)=%d/%d, model %d (sizes %d,%d)", a, b, g1, g2, exp, model[a].n, model[b].n);
}

/* rebuild the model of map k into a fresh library map in shuffled order: must be equal */
static void check_order_insensitive(vrng *r, int k)
{
    struct mmap *mo = &model[k];
    struct xcm_attr_map *n = xcm_attr_map_create();
    int *perm = malloc(sizeof(int) * (size_t)(mo->n + 1));
    for (int i = 0; i < mo->n; i++) perm[i] = i;
    for (int i = mo->n - 1; i > 0; i--) { int j = (int)vrnd_n(r, (uint32_t)i + 1); int t = perm[i]; perm[i] = perm[j]; perm[j] = t; }
    for (int i = 0; i < mo->n; i++) { struct ment *e = &mo->e[perm[i]]; xcm_attr_map_add(n, e->name, e->type, e->val, e->len); }
    if (!xcm_attr_map_equal(n, pool[k]) || !xcm_attr_map_equal(pool[k], n))
        mviol("equal-order", "map %d (%d entries) differs from a rebuild of the same content in another insertion order", k, mo->n);
    /* and a one-entry perturbation must be unequal */
    if (mo->n > 0) {
        struct ment *e = &mo->e[vrnd_n(r, (uint32_t)mo->n)];
        int how = (int)vrnd_n(r, 3);
        if (how == 0) xcm_attr_map_del(n, e->name);
        else if (how == 1) { /* same bytes, other type where the length admits it */
            enum xcm_attr_type ot = e->type == xcm_attr_type_bin ? xcm_attr_type_str : xcm_attr_type_bin;
            if (e->type == xcm_attr_type_int64) ot = xcm_attr_type_double;
            else if (e->type == xcm_attr_type_double) ot = xcm_attr_type_int64;
            else if (e->type == xcm_attr_type_bool) ot = xcm_attr_type_bin;
            xcm_attr_map_add(n, e->name, ot, e->val, e->len);
            vobs("equal_type_only_difference", 1);
        } else { unsigned char *c = malloc(e->len + 1); memcpy(c, e->val, e->len); c[e->len] = 7;
            xcm_attr_map_add(n, e->name, xcm_attr_type_bin, c, e->len + 1); free(c); }
        if (xcm_attr_map_equal(n, pool[k]) || xcm_attr_map_equal(pool[k], n))
            mviol("equal-too-lax", "map %d equals a copy perturbed in one entry (how=%d, type %d)", k, how, e->type);
    }
    xcm_attr_map_destroy(n); free(perm);
}

static const char *key_name(vrng *r, int nkeys, char *buf)
{
    int i = (int)vrnd_n(r, (uint32_t)nkeys);
    /* siblings under one long prefix: names that differ only after their 64th (and 100th) character */
    if (i % 5 == 2) snprintf(buf, 160, "xcm.a_rather_long_container_name_with_many_words.and_another_level_of_it_%s.leaf_%d", i % 10 == 2 ? "that_goes_on_and_on_for_a_while_longer" : "x", i);
    else if (i % 7 == 3) snprintf(buf, 80, "k%d.some.longer[3].attribute.name.%d", i, i * 31);
    else if (i % 11 == 5) snprintf(buf, 80, "%c", 'a' + i % 26);
    else snprintf(buf, 80, "xcm.key_%d", i);
    return buf;
}

static size_t gen_value(vrng *r, enum xcm_attr_type t, unsigned char **out)
{
    size_t len;
    switch (t) {
    case xcm_attr_type_bool: len = sizeof(bool); *out = malloc(len); (*out)[0] = (unsigned char)vrnd_n(r, 2); return len;
    case xcm_attr_type_int64: len = 8; *out = malloc(len); { uint64_t v = vrnd(r); memcpy(*out, &v, 8); } return len;
    case xcm_attr_type_double: len = 8; *out = malloc(len); { double d = (double)(int64_t)vrnd(r) / 977.0; memcpy(*out, &d, 8); } return len;
    case xcm_attr_type_str: {
        len = vrnd_p(r, 10) ? 1 : 1 + vrnd_n(r, vrnd_p(r, 5) ? 5000 : 40);
        *out = malloc(len); for (size_t i = 0; i + 1 < len; i++) (*out)[i] = (unsigned char)(32 + vrnd_n(r, 95)); (*out)[len - 1] = 0; return len; }
    default: {
        unsigned k = vrnd_n(r, 100);
        len = k < 15 ? 0 : k < 17 ? 65536 : k < 20 ? 4096 + vrnd_n(r, 9000) : vrnd_n(r, 64);
        *out = malloc(len ? len : 1); for (size_t i = 0; i < len; i++) (*out)[i] = (unsigned char)vrnd(r);
        if (len == 0) vobs("zero_length_bin", 1);
        if (len >= 65536) vobs("large_bin", 1);
        return len; }
    }
}

static void map_case(vrng *r, int nops)
{
    int nkeys = vrnd_p(r, 30) ? 200 : vrnd_p(r, 50) ? 3 : 12;
    for (int k = 0; k < NPOOL; k++) { pool[k] = xcm_attr_map_create(); memset(&model[k], 0, sizeof model[k]); }
    oplog_len = 0; oplog[0] = 0;
    char nb[160];
    for (int op = 0; op < nops; op++) {
        int k = (int)vrnd_n(r, NPOOL);
        unsigned what = vrnd_n(r, 100);
        vobs("map_ops", 1);
        if (what < 45) { /* add, generic or typed */
            const char *nm0 = key_name(r, nkeys, nb);
            char *nm = strdup(nm0);
            static const enum xcm_attr_type alltypes[5] = { xcm_attr_type_bool, xcm_attr_type_int64, xcm_attr_type_double, xcm_attr_type_str, xcm_attr_type_bin };
            enum xcm_attr_type t = alltypes[vrnd_n(r, 5)];
            unsigned char *v; size_t len = gen_value(r, t, &v);
            bool replacing = mm_find(&model[k], nm) >= 0;
            if (replacing) vobs("add_replaces", 1);
            logop("add(%d,%s,t%d,len%zu)", k, nm, t, len);
            mm_add(&model[k], nm, t, v, len);
            bool typed = vrnd_p(r, 50);
            if (!typed) xcm_attr_map_add(pool[k], nm, t, v, len);
            else switch (t) {
                case xcm_attr_type_bool: xcm_attr_map_add_bool(pool[k], nm, v[0] != 0); break;
                case xcm_attr_type_int64: { int64_t x; memcpy(&x, v, 8); xcm_attr_map_add_int64(pool[k], nm, x); break; }
                case xcm_attr_type_double: { double x; memcpy(&x, v, 8); xcm_attr_map_add_double(pool[k], nm, x); break; }
                case xcm_attr_type_str: xcm_attr_map_add_str(pool[k], nm, (char *)v); break;
                default: xcm_attr_map_add_bin(pool[k], nm, v, len); break;
            }
            /* scribble and release what we supplied: the map must own copies */
            memset(v, 0xEE, len); free(v);
            memset(nm, 'Z', strlen(nm)); free(nm);
            int j = model[k].n - 1; check_entry(k, &model[k].e[j]);
            if (xcm_attr_map_size(pool[k]) != (size_t)model[k].n) mviol("size", "map %d: size %zu after add, model %d", k, xcm_attr_map_size(pool[k]), model[k].n);
        } else if (what < 58) { /* del */
            const char *nm = key_name(r, nkeys, nb);
            logop("del(%d,%s)", k, nm);
            if (mm_find(&model[k], nm) >= 0) vobs("del_present", 1); else vobs("del_absent", 1);
            mm_del(&model[k], nm);
            char *h = strdup(nm); xcm_attr_map_del(pool[k], h); free(h);
            check_absent(k, nm);
            if (xcm_attr_map_size(pool[k]) != (size_t)model[k].n) mviol("size", "map %d: size %zu after del, model %d", k, xcm_attr_map_size(pool[k]), model[k].n);
        } else if (what < 70) { /* lookup */
            const char *nm = key_name(r, nkeys, nb);
            int i = mm_find(&model[k], nm);
            if (i >= 0) check_entry(k, &model[k].e[i]); else check_absent(k, nm);
        } else if (what < 76) { /* clone into another slot, sometimes destroying the original */
            int d = (int)vrnd_n(r, NPOOL); if (d == k) d = (d + 1) % NPOOL;
            logop("clone(%d->%d)", k, d);
            xcm_attr_map_destroy(pool[d]); mm_clear(&model[d]);
            pool[d] = xcm_attr_map_clone(pool[k]); mm_clone(&model[d], &model[k]);
            vobs("clones", 1);
            check_equal_pair(k, d);
            if (vrnd_p(r, 40)) { /* original destroyed: the clone must survive */
                logop("destroy(%d)", k);
                xcm_attr_map_destroy(pool[k]); mm_clear(&model[k]); pool[k] = xcm_attr_map_create();
                vobs("clone_survives_destroy", 1);
            } else if (model[k].n) { /* mutate the original: the clone must not follow */
                struct ment *e = &model[k].e[vrnd_n(r, (uint32_t)model[k].n)];
                char *nm = strdup(e->name); int64_t x = (int64_t)vrnd(r);
                logop("add(%d,%s,int64)", k, nm);
                xcm_attr_map_add_int64(pool[k], nm, x); mm_add(&model[k], nm, xcm_attr_type_int64, &x, 8); free(nm);
            }
            check_full(d);
        } else if (what < 82) { /* add_all */
            int s = (int)vrnd_n(r, NPOOL);
            logop("add_all(%d<-%d)", k, s);
            xcm_attr_map_add_all(pool[k], pool[s]);
            if (s != k) { struct mmap tmp; mm_clone(&tmp, &model[s]);
                for (int i = 0; i < tmp.n; i++) mm_add(&model[k], tmp.e[i].name, tmp.e[i].type, tmp.e[i].val, tmp.e[i].len);
                mm_clear(&tmp); }
            else vobs("add_all_self", 1);
            vobs("add_all", 1);
            check_full(k); check_full(s);
        } else if (what < 90) { /* equality of two pool maps */
            int b = (int)vrnd_n(r, NPOOL);
            check_equal_pair(k, b);
        } else if (what < 94) { /* value supplied from the map's own storage */
            if (model[k].n) {
                struct ment *e = &model[k].e[vrnd_n(r, (uint32_t)model[k].n)];
                enum xcm_attr_type t; size_t len;
                const void *own = xcm_attr_map_get(pool[k], e->name, &t, &len);
                bool same = vrnd_p(r, 50);
                char *dst = strdup(same ? e->name : key_name(r, nkeys, nb));
                if (own) {
                    logop("add_alias(%d,%s<-%s,len%zu)", k, dst, e->name, len);
                    unsigned char *keep = malloc(len ? len : 1); memcpy(keep, own, len);
                    vobs(strcmp(dst, e->name) ? "alias_other_name" : "alias_same_name", 1);
                    xcm_attr_map_add(pool[k], dst, t, own, len);
                    mm_add(&model[k], dst, t, keep, len);
                    free(keep);
                    int j = mm_find(&model[k], dst); check_entry(k, &model[k].e[j]);
                }
                free(dst);
            }
        } else if (what < 97) check_full(k);
        else check_order_insensitive(r, k);
    }
    for (int k = 0; k < NPOOL; k++) check_full(k);
    for (int k = 0; k < NPOOL; k++) { xcm_attr_map_destroy(pool[k]); mm_clear(&model[k]); }
    xcm_attr_map_destroy(NULL);
    char sig[64]; snprintf(sig, sizeof sig, "map:keys%d:ops%d", nkeys, nops / 100);
    vsig_str(sig);
}

/* ------------------------------------------------------------- paths ---- */
struct rcomp { bool is_key; char key[64]; size_t index; };

static void path_viol(const char *rule, const char *input, const char *fmt, ...)
{
    char msg[400]; va_list ap; va_start(ap, fmt); vsnprintf(msg, sizeof msg, fmt, ap); va_end(ap);
    char det[900]; FILE *f = fmemopen(det, sizeof det, "w");
    fputs("\"input\":", f); char t[400]; snprintf(t, sizeof t, "%.380s", input); vjson_escape(f, t); fclose(f);
    char key[64]; snprintf(key, sizeof key, "path:%s", rule);
    vviol(cur_case, rule, key, det, "%s", msg);
}

static int gen_path(vrng *r, struct rcomp *c, int maxc, char *out, size_t outsz, bool canonical)
{
    static const char al[] = "abcdefghijklmnopqrstuvwxyzABCXYZ0123456789_-:/ @";
    int n = 1 + (int)vrnd_n(r, (uint32_t)maxc);
    size_t o = 0;
    int made = 0;
    for (int i = 0; i < n; i++) {
        struct rcomp *x = &c[made];
        char piece[96];
        if (i == 0 || vrnd_p(r, 65)) {
            x->is_key = true;
            int kl = 1 + (int)vrnd_n(r, vrnd_p(r, 10) ? 40 : 6);
            for (int j = 0; j < kl; j++) x->key[j] = al[vrnd_n(r, sizeof al - 1)];
            x->key[kl] = 0;
            snprintf(piece, sizeof piece, "%s%s", i == 0 ? "" : ".", x->key);
        } else {
            x->is_key = false;
            unsigned z = vrnd_n(r, 10);
            x->index = z < 6 ? vrnd_n(r, 10) : z < 9 ? vrnd_n(r, 100000) : (size_t)(vrnd(r) >> 2);
            if (canonical) snprintf(piece, sizeof piece, "[%zu]", x->index);
            else snprintf(piece, sizeof piece, "[%0*zu]", 1 + (int)vrnd_n(r, 6), x->index);
        }
        if (o + strlen(piece) > 255 || o + strlen(piece) + 1 > outsz) break;
        memcpy(out + o, piece, strlen(piece)); o += strlen(piece);
        made++;
    }
    out[o] = 0;
    return made;
}

static void check_parsed(const char *s, struct attr_path *p, const struct rcomp *c, int n)
{
    if (attr_path_num_comps(p) != (size_t)n) { path_viol("parse-comps", s, "'%.80s': %zu components, expected %d", s, attr_path_num_comps(p), n); return; }
    for (int i = 0; i < n; i++) {
        const struct attr_pcomp *pc = attr_path_get_comp(p, (size_t)i);
        if (c[i].is_key != attr_pcomp_is_key(pc) ||
            (c[i].is_key ? strcmp(attr_pcomp_get_key(pc), c[i].key) != 0 : attr_pcomp_get_index(pc) != c[i].index)) {
            path_viol("parse-comp", s, "'%.80s': component %d differs", s, i); return; }
    }
}

static void path_valid_case(vrng *r)
{
    struct rcomp c[80]; char s[400];
    int maxc = vrnd_p(r, 20) ? 64 : 8;
    int n = gen_path(r, c, maxc, s, sizeof s, true);
    char *in = strdup(s);
    struct attr_path *p = attr_path_parse(in, true);
    vobs("paths_valid", 1);
    if (n >= 32) vobs("paths_32plus_comps", 1);
    if (!p) { path_viol("parse-rejects-valid", s, "valid path '%.100s' (%d components, length %zu) rejected", s, n, strlen(s)); free(in); return; }
    check_parsed(s, p, c, n);
    char *back = attr_path_to_str(p, true);
    if (strcmp(back, s)) path_viol("print-not-canonical", s, "to_str gives '%.100s' for '%.100s'", back, s);
    if (attr_path_len(p, true) != strlen(s)) path_viol("len", s, "attr_path_len %zu != %zu", attr_path_len(p, true), strlen(s));
    struct attr_path *p2 = attr_path_parse(back, true);
    if (!p2 || !attr_path_equal(p, p2) || !attr_path_equal(p2, p)) path_viol("roundtrip", s, "parse(to_str(p)) != p for '%.100s'", s);
    if (!attr_path_equal_str(p, in, true)) path_viol("equal-str", s, "equal_str(p, its own string) false");
    /* a different path must compare unequal */
    struct rcomp c2[80]; char s2[400]; int n2 = gen_path(r, c2, maxc, s2, sizeof s2, true);
    bool same = (n2 == n) && !strcmp(s, s2);
    struct attr_path *q = attr_path_parse(s2, true);
    if (q) { if (attr_path_equal(p, q) != same) path_viol("equal", s, "equal('%.60s','%.60s') wrong", s, s2); attr_path_destroy(q); }
    /* non-root form: the same components after the first, parsed with root=false */
    if (n > 1) {
        const char *rest = s + strlen(c[0].key);
        char *rin = strdup(rest);
        struct attr_path *pr = attr_path_parse(rin, false);
        if (!pr) path_viol("parse-rejects-valid", rest, "valid relative path '%.100s' rejected", rest);
        else { check_parsed(rest, pr, c + 1, n - 1);
            char *b2 = attr_path_to_str(pr, false);
            if (strcmp(b2, rest)) path_viol("print-not-canonical", rest, "relative to_str gives '%.100s'", b2);
            if (attr_path_len(pr, false) != strlen(rest)) path_viol("len", rest, "relative len wrong");
            free(b2); attr_path_destroy(pr); }
        free(rin);
    }
    attr_path_destroy(p2); free(back); attr_path_destroy(p); free(in);
    char sig[48]; snprintf(sig, sizeof sig, "path:valid:%d", n > 16 ? 17 + n / 16 : n); vsig_str(sig);
}

static void path_noncanonical_case(vrng *r)
{
    struct rcomp c[80]; char s[400], canon[400];
    vrng r2 = *r;
    int n = gen_path(r, c, 6, s, sizeof s, false);
    /* the canonical spelling of the same components */
    size_t o = 0;
    for (int i = 0; i < n; i++) o += (size_t)(c[i].is_key ? snprintf(canon + o, sizeof canon - o, "%s%s", i ? "." : "", c[i].key)
                                                      : snprintf(canon + o, sizeof canon - o, "[%zu]", c[i].index));
    (void)r2;
    struct attr_path *p = attr_path_parse(s, true);
    vobs("paths_noncanonical", 1);
    if (!p) { path_viol("parse-rejects-valid", s, "path with zero-padded index '%.100s' rejected", s); return; }
    check_parsed(s, p, c, n);
    char *back = attr_path_to_str(p, true);
    if (strcmp(back, canon)) path_viol("print-not-canonical", s, "'%.80s' prints as '%.80s', canonical is '%.80s'", s, back, canon);
    if (!attr_path_equal_str(p, canon, true)) path_viol("equal-str", s, "equal_str against the canonical spelling is false");
    free(back); attr_path_destroy(p);
    vsig_str("path:noncanonical");
}

static void must_reject(const char *s, bool root, const char *cls)
{
    char *in = strdup(s);
    struct attr_path *p = attr_path_parse(in, root);
    vobs("paths_must_reject", 1);
    char sig[64]; snprintf(sig, sizeof sig, "path:reject:%s", cls); vsig_str(sig);
    if (p) {
        char rule[64]; snprintf(rule, sizeof rule, "accepts-%s", cls);
        path_viol(rule, s, "attr_path_parse accepted '%.100s' (%s, root=%d) with %zu components", s, cls, root, attr_path_num_comps(p));
        attr_path_destroy(p);
    }
    free(in);
}

static void path_reject_case(vrng *r)
{
    char s[700];
    switch (vrnd_n(r, 12)) {
    case 0: must_reject("a..b", true, "empty-key"); break;
    case 1: must_reject("a.", true, "trailing-dot"); break;
    case 2: must_reject(".a", true, "leading-dot-root"); break;
    case 3: must_reject("a[1", true, "unbalanced-bracket"); break;
    case 4: must_reject("a]", true, "stray-close"); break;
    case 5: must_reject("a[x]", true, "non-numeric-index"); break;
    case 6: must_reject("a[-1]", true, "negative-index"); break;
    case 7: must_reject("a[]", true, "empty-index"); break;
    case 8: { int len = vrnd_range(r, 256, 600); for (int i = 0; i < len; i++) s[i] = 'a' + (char)(i % 26); s[len] = 0;
              must_reject(s, true, "over-length"); break; }
    case 9: must_reject("a[99999999999999999999999]", true, "index-overflow"); break;
    case 10: must_reject("a", false, "relative-without-delimiter"); break;
    case 11: must_reject("[0]", true, "root-index"); break;
    }
}

/* more than 64 components within the 255 character limit */
static void path_many_comps_case(vrng *r)
{
    char s[300]; size_t o = 0;
    int n = vrnd_range(r, 65, 127);
    bool idx = vrnd_p(r, 50);
    o += (size_t)sprintf(s, "a");
    for (int i = 1; i < n && o + 4 < 255; i++)
        o += (size_t)sprintf(s + o, idx && (i & 1) ? "[%d]" : ".%c", idx && (i & 1) ? (int)vrnd_n(r, 10) : 'a' + i % 26);
    char *in = strdup(s);
    vobs("paths_over_64_comps", 1);
    vsig_str(idx ? "path:over64:idx" : "path:over64:keys");
    struct attr_path *p = attr_path_parse(in, true);   /* sanitizers judge memory safety */
    if (p) {
        /* if accepted it must still be a faithful path */
        char *back = attr_path_to_str(p, true);
        if (strcmp(back, s)) path_viol("over-64-components-mangled", s, "path with %d components accepted but prints as '%.80s'", n, back);
        free(back); attr_path_destroy(p);
    }
    free(in);
}

static void path_arbitrary_case(vrng *r)
{
    char s[300];
    static const char al[] = "ab.[]0123456789-+ x\t";
    size_t n = vrnd_n(r, vrnd_p(r, 10) ? 255 : 24);
    bool raw = vrnd_p(r, 30);
    for (size_t i = 0; i < n; i++) s[i] = raw ? (char)(1 + vrnd_n(r, 255)) : al[vrnd_n(r, sizeof al - 1)];
    s[n] = 0;
    bool root = vrnd_p(r, 70);
    char *in = strdup(s);
    struct attr_path *p = attr_path_parse(in, root);
    vobs("paths_arbitrary", 1);
    if (p) {
        vobs("paths_arbitrary_accepted", 1);
        char *c1 = attr_path_to_str(p, root);
        struct attr_path *p2 = attr_path_parse(c1, root);
        if (!p2) path_viol("canonical-form-rejected", s, "'%.80s' parses, prints as '%.80s', which does not parse", s, c1);
        else {
            if (!attr_path_equal(p, p2)) path_viol("roundtrip", s, "parse(to_str(parse(s))) != parse(s) for '%.80s'", s);
            char *c2 = attr_path_to_str(p2, root);
            if (strcmp(c1, c2)) path_viol("print-not-idempotent", s, "'%.60s' -> '%.60s' -> '%.60s'", s, c1, c2);
            if (attr_path_len(p2, root) != strlen(c2)) path_viol("len", s, "len mismatch on canonical form");
            free(c2); attr_path_destroy(p2);
        }
        if (!attr_path_equal_str(p, in, root)) path_viol("equal-str", s, "equal_str(parse(s), s) false for '%.80s'", s);
        free(c1); attr_path_destroy(p);
    }
    /* key validity helper agrees with the grammar */
    bool vk = attr_path_is_valid_key(in);
    bool exp = n > 0 && !strpbrk(in, ".[]");
    if (vk != exp) path_viol("is-valid-key", s, "attr_path_is_valid_key('%.60s')=%d", s, vk);
    free(in);
}

static void one_case(long idx, void *arg)
{
    (void)arg;
    cur_case = idx;
    vrng r = { vsub_seed(va.seed, (uint64_t)va.worker, (uint64_t)idx) };
    int nops = va.thorough ? 4000 : 1500;
    map_case(&r, nops);
    int np = va.thorough ? 3000 : 600;
    for (int i = 0; i < np; i++) {
        path_valid_case(&r);
        path_arbitrary_case(&r);
        if (i % 3 == 0) path_noncanonical_case(&r);
        if (i % 5 == 0) path_reject_case(&r);
        if (i % 50 == 0) path_many_comps_case(&r);
    }
    vcase_done(true);
}

int main(int argc, char **argv)
{
    vparse_args(argc, argv);
    for (long i = 0; i < va.cases; i++) {
        if (va.only >= 0 && i != va.only) continue;
        if (va.only >= 0) one_case(i, NULL);
        else vfork_case(i, one_case, NULL, 120, "c19");
        if (i == 0)
            vsample("{\"kind\":\"map history + path batch\",\"map_ops\":\"add(5 types, typed and generic)/del/lookup/clone(+destroy or mutate original)/add_all(incl. self)/equal/alias-from-own-storage/full check/order-insensitive rebuild\",\"pool\":5,\"key_sets\":[3,12,200],\"paths\":\"structural valid (<=64 comps, <=255 chars), zero-padded indices, must-reject set, >64 components, arbitrary strings\"}");
    }
    vsummary(true);
    return 0;
}
