/* c20.c - xcmrelay is transparent (C20).
 *
 * The relay built from the working tree (ASan) runs as a separate process
 * between harness clients and a harness server.  Every relayed connection
 * carries unique-content traffic in both directions at once; the C01/C02
 * delivery oracle is applied end to end in each direction.  One side may stop
 * reading for a while (the relay then holds a message and switches interest),
 * bursts are followed by an immediate finish+close: the other side must see
 * the close only after everything the closing side had sent.  The relay must
 * neither exit nor stall while it has live connections.  Half of the cases run
 * the relay with an LD_PRELOAD shim that accepts writes in part and refuses
 * the next one (what a full kernel buffer does in the middle of a frame), so
 * that the hold-and-resume and close-while-buffered paths are reached.
 */
#include "vstate.h"

#include <dirent.h>
#include <fcntl.h>
#include <poll.h>
#include <signal.h>
#include <sys/stat.h>
#include <sys/wait.h>

static long cur_case;
static char ctx[900];

enum leg { L_UX, L_UXF, L_TCP, L_TLS, L_UTLS, L_BTCP, L_BTLS };
static const char *const leg_name[] = { "ux", "uxf", "tcp", "tls", "utls", "btcp", "btls" };
static enum vtp leg_tp(enum leg l) { return l == L_UX ? TP_UX : l == L_UXF ? TP_UXF : l == L_TCP ? TP_TCP : l == L_TLS ? TP_TLS : l == L_UTLS ? TP_UTLS_TLS : l == L_BTCP ? TP_BTCP : TP_BTLS; }
static bool leg_bs(enum leg l) { return l == L_BTCP || l == L_BTLS; }

static void cv(const char *rule, const char *what, const char *fmt, ...)
{
    char msg[1000]; va_list ap; va_start(ap, fmt); vsnprintf(msg, sizeof msg, fmt, ap); va_end(ap);
    char key[200]; snprintf(key, sizeof key, "relay:%s:%s", rule, what);
    vviol(cur_case, "relay", key, veng_detail(ctx), "%s; %s", msg, ctx);
}

static char errf[700];
static const char *relay_said(void)
{
    static char buf[700]; buf[0] = 0;
    FILE *f = fopen(errf, "r"); if (!f) return buf;
    size_t n = fread(buf, 1, sizeof buf - 1, f); buf[n] = 0; fclose(f);
    for (char *q = buf; *q; q++) if (*q == '\n' || *q == '"') *q = ' ';
    return buf;
}

struct ccase { enum leg l1, l2; int nconn; bool preload; int pattern; /* 0 ping-pong mix, 1 burst then close, 2 stalled reader */ int nmsg; bool closer_is_client; bool large; bool refuse; /* the server stops listening for a moment while its connections live */ };

#define MAXC 8
struct rconn { struct vep c, a; bool matched; bool c_closed, a_closed; int budget_c, budget_a; bool c_done, a_done; };

static int mk_addr(enum leg l, char *out, size_t cap, const char *tag, int *port_out)
{
    switch (l) {
    case L_UX: snprintf(out, cap, "ux:c20-%s-%d-%d", tag, (int)getpid(), va.worker); return 0;
    case L_UXF: snprintf(out, cap, "uxf:%s/uxf/c20-%s-%d", va.dir, tag, (int)getpid()); return 0;
    default: {
        /* every case process has a loopback address of its own (all of 127/8 is local): the port is chosen here but bound by the relay a
         * moment later, and on a shared address another worker's server could take it in between and receive this case's clients */
        char ip[32]; unsigned pid = (unsigned)getpid(); snprintf(ip, sizeof ip, "127.%u.%u.%u", (tag[0] == 'f' ? 64 : 128) + ((pid >> 16) & 0x3f), (pid >> 8) & 0xff, pid & 0xff);    /* front and back differ too: the two ports are chosen one after the other and may come out equal */
        const char *ips[1] = { ip }; int p = vnet_pick_port(ips, 1); if (p < 0) return -1; if (port_out) *port_out = p; snprintf(out, cap, "%s:%s:%d", leg_name[l], ip, p); return 0; }
    }
}

static uint32_t pick_len(const struct ccase *c, vrng *r, bool bs)
{
    if (c->large || vrnd_p(r, 15)) { static const uint32_t b[] = { 65535, 60000, 40000, 16385, 32768 }; return b[vrnd_n(r, 5)]; }
    (void)bs;
    return 1 + vrnd_n(r, 2000);
}

/* returns 1 accepted, 0 EAGAIN, -1 error */
static int do_send(struct vep *e, const struct ccase *c, vrng *r)
{
    uint32_t len = pick_len(c, r, e->bytestream);
    long ai = veng_att_begin(e, len);
    unsigned char *b = malloc(len); veng_fill(e->key, e->att[ai].id, b, len);
    int rc = vx_send(e, b, len); int se = errno; free(b);
    veng_att_end(e, ai, rc, se);
    return rc >= 0 ? 1 : se == EAGAIN ? 0 : -1;
}
static int do_recv(struct vep *e)
{
    static unsigned char buf[70000];
    size_t cap = e->bytestream ? sizeof buf : 65535;
    int rc = vx_receive(e, buf, cap); int se = errno;
    if (rc > 0) veng_rx_add(e, buf, rc, cap);
    else if (rc == 0) e->term = 1; else if (se != EAGAIN) { e->term = 2; e->term_errno = se; }
    return rc > 0 ? rc : rc == 0 ? 0 : se == EAGAIN ? -1 : -2;
}

static void one_case(long idx, void *arg)
{
    (void)arg;
    cur_case = idx;
    uint64_t ss = vsub_seed(va.seed, (uint64_t)va.worker, (uint64_t)idx);
    vrng r = { ss };
    long gi = idx * va.nworkers + va.worker;
    static const enum leg msg_legs[] = { L_UX, L_UXF, L_TCP, L_TLS, L_UTLS }; static const enum leg bs_legs[] = { L_BTCP, L_BTLS };
    struct ccase c; memset(&c, 0, sizeof c);
    if ((gi % 4) == 3) { c.l1 = bs_legs[(gi / 4) % 2]; c.l2 = bs_legs[(gi / 8) % 2]; }
    else { c.l1 = msg_legs[(gi / 4) % 5]; c.l2 = msg_legs[(gi / 20) % 5]; }
    c.nconn = vrnd_p(&r, 60) ? 1 : 2 + (int)vrnd_n(&r, MAXC - 1);
    if (leg_bs(c.l1)) c.nconn = 1;          /* a byte stream has no first message to tell connections apart by */
    c.preload = vrnd_p(&r, 50); c.pattern = (int)vrnd_n(&r, 3); c.nmsg = 5 + (int)vrnd_n(&r, 40); c.closer_is_client = vrnd_p(&r, 50); c.large = vrnd_p(&r, 35); c.refuse = vrnd_p(&r, 25);
    snprintf(ctx, sizeof ctx, "{\"case\":%ld,\"sub_seed\":\"%" PRIu64 "\",\"client_leg\":\"%s\",\"server_leg\":\"%s\",\"connections\":%d,\"relay_writes_shortened\":%d,\"pattern\":\"%s\",\"messages_per_side\":%d,\"closer\":\"%s\",\"large_messages\":%d,\"server_stops_listening_for_a_moment\":%d}",
             idx, ss, leg_name[c.l1], leg_name[c.l2], c.nconn, c.preload, c.pattern == 0 ? "mixed" : c.pattern == 1 ? "burst-then-close" : "stalled-reader", c.nmsg, c.closer_is_client ? "client" : "server", c.large, c.refuse);
    VLOG("case %s", ctx);
    char a1[700], a2[700];
    if (mk_addr(c.l1, a1, sizeof a1, "front", NULL) < 0 || mk_addr(c.l2, a2, sizeof a2, "back", NULL) < 0) { vobs("setup_failed", 1); vcase_done(false); return; }
    /* the harness server behind the relay */
    struct vep S; veng_ep_init(&S, 50, leg_tp(c.l2), 1);
    struct xcm_attr_map *sm = xcm_attr_map_create(); xcm_attr_map_add_bool(sm, "xcm.blocking", false); if (leg_bs(c.l2)) xcm_attr_map_add_str(sm, "xcm.service", "bytestream");
    { struct vs_scope sc = { .active = true, .nonblocking = true, .api = "xcm_server_a", .ep = 50, .plan = &S.plan }; vs_enter(&sc); S.s = xcm_server_a(a2, sm); vs_leave(); }
    xcm_attr_map_destroy(sm);
    if (!S.s) { vobs("setup_failed", 1); vcase_done(false); return; }
    /* the relay process */
    char relay_exe[700], pre[900] = "";
    snprintf(relay_exe, sizeof relay_exe, "%s/xcmrelay", getenv("VERIF_BUILD")); snprintf(errf, sizeof errf, "%s/relay.%d.err", va.dir, (int)getpid());
    fflush(stdout); fflush(stderr);
    pid_t rp = fork();
    if (rp == 0) {
        int fd = open(errf, O_WRONLY | O_CREAT | O_TRUNC, 0600); if (fd >= 0) { dup2(fd, 2); dup2(fd, 1); close(fd); }
        for (int k = 3; k < 1024; k++) close(k);      /* the relay does not inherit the harness server's listening socket */
        setenv("ASAN_OPTIONS", "abort_on_error=1:detect_leaks=0", 1); setenv("UBSAN_OPTIONS", "print_stacktrace=1", 1);     /* reports to stderr = the file above */
        if (c.preload) {
            const char *asan = getenv("VERIF_LIBASAN"); snprintf(pre, sizeof pre, "%s%s%s/libvpreload.so", asan ? asan : "", asan ? ":" : "", getenv("VERIF_BUILD"));
            setenv("LD_PRELOAD", pre, 1); char pct[16]; snprintf(pct, sizeof pct, "%d", 20 + (int)(ss % 40)); setenv("VPRELOAD_SHORT_PCT", pct, 1);
        }
        char *argvv[16]; int n = 0; argvv[n++] = relay_exe;
        if (leg_bs(c.l1)) { argvv[n++] = "-x"; argvv[n++] = "-s"; argvv[n++] = "xcm.service=bytestream"; argvv[n++] = "-s"; argvv[n++] = "xcm.service=bytestream"; }
        argvv[n++] = a1; argvv[n++] = a2; argvv[n] = NULL;
        execv(relay_exe, argvv);
        _exit(127);
    }
    struct rconn rc[MAXC]; memset(rc, 0, sizeof rc);
    bool bs = leg_bs(c.l1);
    /* connect the clients (the relay may need a moment to listen) */
    int up = 0;
    for (int i = 0; i < c.nconn; i++) {
        veng_ep_init(&rc[i].c, i, leg_tp(c.l1), vmix(ss ^ (uint64_t)(100 + i))); veng_ep_init(&rc[i].a, 20 + i, leg_tp(c.l2), vmix(ss ^ (uint64_t)(200 + i)));
        rc[i].c.bytestream = bs; rc[i].a.bytestream = bs;
        struct xcm_attr_map *cm = xcm_attr_map_create(); xcm_attr_map_add_bool(cm, "xcm.blocking", false); if (bs) xcm_attr_map_add_str(cm, "xcm.service", "bytestream");
        const char *ca = a1; char ca2[700]; if (c.l1 == L_UTLS) { snprintf(ca2, sizeof ca2, "tls:%s", strchr(a1, ':') + 1); ca = ca2; }
        for (int t = 0; t < 400 && !rc[i].c.s; t++) {
            struct vs_scope sc = { .active = true, .nonblocking = true, .api = "xcm_connect_a", .ep = i, .plan = &rc[i].c.plan }; vs_enter(&sc); rc[i].c.s = xcm_connect_a(ca, cm); vs_leave();
            if (!rc[i].c.s) { int st; if (waitpid(rp, &st, WNOHANG) == rp) { rp = -1; break; } struct pollfd none; vs_real_poll(&none, 0, 10); }
        }
        xcm_attr_map_destroy(cm);
        if (rc[i].c.s) up++;
    }
    if (rp < 0 || up < c.nconn) { vobs("setup_failed", 1); VLOG("relay did not come up: %s", relay_said()); goto out; }
    /* every client introduces itself; the server side learns which accepted socket belongs to which client */
    for (int i = 0; i < c.nconn; i++) rc[i].budget_c = 1;
    struct xcm_socket *pending[MAXC]; int npend = 0;
    double t0 = vnow();
    int matched = 0;
    while (matched < c.nconn && vnow() - t0 < 20) {
        if (bs) {
            vx_finish(&rc[0].c);
            struct vs_scope sc = { .active = true, .nonblocking = true, .api = "xcm_accept", .ep = 50, .plan = &S.plan }; vs_enter(&sc); struct xcm_socket *x = xcm_accept(S.s); vs_leave();
            if (x) { rc[0].a.s = x; rc[0].matched = true; matched = 1; }
            struct pollfd none; vs_real_poll(&none, 0, 1);
            continue;
        }
        for (int i = 0; i < c.nconn; i++) {
            vx_finish(&rc[i].c);
            if (rc[i].budget_c) { unsigned char hello[8] = { 'H', 'E', 'L', 'O', (unsigned char)i, 0, 0, 0 }; int s1 = vx_send(&rc[i].c, hello, sizeof hello); if (s1 >= 0) rc[i].budget_c = 0; }
        }
        if (npend < MAXC) { struct vs_scope sc = { .active = true, .nonblocking = true, .api = "xcm_accept", .ep = 50, .plan = &S.plan }; vs_enter(&sc); struct xcm_socket *x = xcm_accept(S.s); vs_leave(); if (x) pending[npend++] = x; }
        for (int k = 0; k < npend; k++) {
            if (!pending[k]) continue;
            unsigned char hb[16]; int n = xcm_receive(pending[k], hb, 8);
            if (n == 8 && !memcmp(hb, "HELO", 4) && hb[4] < c.nconn && !rc[hb[4]].matched) { rc[hb[4]].a.s = pending[k]; rc[hb[4]].matched = true; pending[k] = NULL; matched++; }
            else if (n > 0 && bs) { /* byte streams may deliver the greeting in pieces: keep it simple, treat as mismatch */ cv("greeting-garbled", leg_name[c.l2], "the first bytes relayed to the server are not the client's greeting (%d bytes)", n); goto out; }
            else if (n > 0) { cv("greeting-garbled", leg_name[c.l2], "the first message relayed to the server is not the client's greeting (%d bytes: %02x%02x%02x%02x%02x%02x%02x%02x; %d of %d matched, %d pending)", n, hb[0], hb[1], hb[2], hb[3], hb[4], hb[5], hb[6], hb[7], matched, c.nconn, npend); goto out; }
        }
        struct pollfd none; vs_real_poll(&none, 0, 1);
    }
    if (matched < c.nconn && strstr(relay_said(), "Address already in use")) { vobs("setup_failed", 1); goto out; }      /* another process took the port between choosing and binding it */
    if (matched < c.nconn) { int st; if (waitpid(rp, &st, WNOHANG) == rp) { rp = -1; cv("relay-exited", "during-setup", "xcmrelay exited (status 0x%x) while connections were being set up; it said: %s", st, relay_said()); } else vobs("setup_failed", 1); goto out; }
    vobs("relayed_connections", c.nconn);
    if (c.refuse) {
        /* the server behind the relay stops listening for a moment (its connections stay).  A newcomer cannot be connected onward and the relay
         * drops it; that is the newcomer's problem alone: the established connections carry on below, and the relay serves again afterwards */
        vx_close(&S); S.closed_by_us = false;
        struct xcm_attr_map *cm = xcm_attr_map_create(); xcm_attr_map_add_bool(cm, "xcm.blocking", false); if (bs) xcm_attr_map_add_str(cm, "xcm.service", "bytestream");
        const char *ca = a1; char ca2[700]; if (c.l1 == L_UTLS) { snprintf(ca2, sizeof ca2, "tls:%s", strchr(a1, ':') + 1); ca = ca2; }
        struct xcm_socket *n2 = xcm_connect_a(ca, cm); xcm_attr_map_destroy(cm);
        bool dropped = n2 == NULL;
        for (int i = 0; n2 && i < 3000 && !dropped; i++) { char b8[8]; int n = xcm_receive(n2, b8, sizeof b8); if (n == 0 || (n < 0 && errno != EAGAIN)) dropped = true; else { struct pollfd none; vs_real_poll(&none, 0, 1); } }
        if (n2) xcm_close(n2);
        vobs(dropped ? "newcomer_dropped_while_server_not_listening" : "newcomer_kept_while_server_not_listening", 1);
        struct xcm_attr_map *sm2 = xcm_attr_map_create(); xcm_attr_map_add_bool(sm2, "xcm.blocking", false); if (leg_bs(c.l2)) xcm_attr_map_add_str(sm2, "xcm.service", "bytestream");
        for (int t = 0; t < 200 && !S.s; t++) { struct vs_scope sc = { .active = true, .nonblocking = true, .api = "xcm_server_a", .ep = 50, .plan = &S.plan }; vs_enter(&sc); S.s = xcm_server_a(a2, sm2); vs_leave(); if (!S.s) { struct pollfd none; vs_real_poll(&none, 0, 10); } }
        xcm_attr_map_destroy(sm2);
        if (!S.s) { vobs("setup_failed", 1); goto out; }
    }

    /* ---- traffic ---- */
    for (int i = 0; i < c.nconn; i++) { rc[i].budget_c = c.nmsg; rc[i].budget_a = c.pattern == 1 && c.closer_is_client ? 0 : c.nmsg; if (c.pattern == 1 && !c.closer_is_client) rc[i].budget_c = 0; }
    long steps = 0; double t1 = vnow(); int flush_failed = 0;
    int stall_conn = (int)vrnd_n(&r, (uint32_t)c.nconn); long stall_until = c.pattern == 2 ? 3000 + (long)vrnd_n(&r, 6000) : 0;
    while (vnow() - t1 < 40) {
        bool all_sent = true;
        for (int i = 0; i < c.nconn; i++) if (rc[i].budget_c > 0 || rc[i].budget_a > 0) all_sent = false;
        if (all_sent) break;
        int i = (int)vrnd_n(&r, (uint32_t)c.nconn); struct rconn *x = &rc[i];
        unsigned a = vrnd_n(&r, 100);
        bool stalled_side_is_a = (i == stall_conn && steps < stall_until);         /* the server end of that connection does not read for a while */
        if (a < 30) { if (x->budget_c > 0) { int s1 = do_send(&x->c, &c, &r); if (s1 == 1) x->budget_c--; else if (s1 < 0) x->budget_c = 0; } }
        else if (a < 60) { if (x->budget_a > 0) { int s1 = do_send(&x->a, &c, &r); if (s1 == 1) x->budget_a--; else if (s1 < 0) x->budget_a = 0; } }
        else if (a < 78) { if (!x->c.term) do_recv(&x->c); }
        else if (a < 96) { if (!x->a.term && !stalled_side_is_a) do_recv(&x->a); }
        else { vx_finish(&x->c); vx_finish(&x->a); }
        steps++;
        if (vviol_count()) goto out;
    }
    if (c.pattern == 2) vobs("stalled_reader_cases", 1);
    /* ---- the closing side finishes and closes; the other side must get everything, then the close ---- */
    for (int i = 0; i < c.nconn; i++) {
        struct rconn *x = &rc[i];
        struct vep *closer = c.closer_is_client ? &x->c : &x->a, *other = c.closer_is_client ? &x->a : &x->c;
        double t2 = vnow(); int fr = -1;
        while (vnow() - t2 < 20) {
            fr = vx_finish(closer); if (fr == 0 || errno != EAGAIN) break;
            for (int k = 0; k < 8; k++) { if (do_recv(other) <= 0) break; }
            for (int k = 0; k < 8; k++) { if (closer->term || do_recv(closer) <= 0) break; }        /* keep reading our own side so that the relay is not blocked on us */
        }
        if (fr != 0) { vobs("closer_could_not_flush", 1); flush_failed++; continue; }
        long closer_ok = closer->n_ok; uint64_t closer_bytes = closer->bytes_ok;
        vx_close(closer);
        /* the other side reads until it sees the close */
        t2 = vnow();
        while (!other->term && vnow() - t2 < 20) { int n = do_recv(other); if (n == -1) { vx_finish(other); struct pollfd none; vs_real_poll(&none, 0, 1); } }
        if (!other->term) { int st; if (waitpid(rp, &st, WNOHANG) == rp) { rp = -1; cv("relay-exited", "with-live-connections", "xcmrelay exited (status 0x%x) while it had live connections; it said: %s", st, relay_said()); goto out; }
            cv("close-not-relayed", leg_name[c.closer_is_client ? c.l2 : c.l1], "one side finished and closed; 20 s later the other side has seen neither the close nor an error (%ld of %ld messages arrived)", other->n_rx, closer_ok); goto out; }
        bool lost = other->bytestream ? other->rx_stream_len < closer_bytes : other->n_rx < closer_ok;
        if (lost) {
            /* the key tells the two situations apart: the other side was itself sending (its traffic hits the closed end inside the relay), or only the closing side sent */
            bool other_was_sending = other->n_att > 0;
            cv(other->term == 1 ? "close-before-data" : "reset-before-data", other_was_sending ? "other-side-also-sending" : "one-direction-only",
               "the closing side (%s leg) had %ld messages / %" PRIu64 " bytes accepted and flushed before it closed; the other side (%s leg) saw %s after %ld messages / %zu bytes%s", leg_name[c.closer_is_client ? c.l1 : c.l2], closer_ok, closer_bytes,
               leg_name[c.closer_is_client ? c.l2 : c.l1], other->term == 1 ? "an orderly close" : strerror(other->term_errno), other->n_rx, other->rx_stream_len, c.preload ? " (relay writes shortened)" : "");
            vx_close(other);
            continue;
        }
        veng_check_delivery(idx, closer, other, other->term == 1, ctx);
        /* the opposite direction: whatever arrived at the closer is a prefix of what the other side sent */
        veng_check_delivery(idx, other, closer, false, ctx);
        if (other->term == 1) vobs("close_order_verified", 1); else vobs("close_seen_as_error", 1);
        vobs("messages_relayed", other->n_rx + closer->n_rx);
        vx_close(other);
        if (vviol_count()) goto out;
    }
    /* the relay is still there */
    { int st; if (waitpid(rp, &st, WNOHANG) == rp) { rp = -1; cv("relay-exited", "after-connections-closed", "xcmrelay exited (status 0x%x) after its connections were closed (it should keep serving)", st); goto out; } }
    /* and still serves: one more connection goes through */
    {
        struct vep nc, na; veng_ep_init(&nc, 40, leg_tp(c.l1), 5); veng_ep_init(&na, 41, leg_tp(c.l2), 6); nc.bytestream = na.bytestream = bs;
        struct xcm_attr_map *cm = xcm_attr_map_create(); xcm_attr_map_add_bool(cm, "xcm.blocking", false); if (bs) xcm_attr_map_add_str(cm, "xcm.service", "bytestream");
        const char *ca = a1; char ca2[700]; if (c.l1 == L_UTLS) { snprintf(ca2, sizeof ca2, "tls:%s", strchr(a1, ':') + 1); ca = ca2; }
        nc.s = xcm_connect_a(ca, cm); xcm_attr_map_destroy(cm);
        bool ok = false; unsigned char m[8] = "LATER!!", rb[16] = { 0 }; bool sent = false; size_t got = 0;
        /* connections still queued at the server from the first batch (the relay connects to the server as soon as it has accepted a
         * client, whatever becomes of that client) are not the one looked for: every accepted connection is examined */
        struct xcm_socket *cand[6] = { 0 }; unsigned char cb[6][8]; size_t cgot[6] = { 0 }; int ncand = 0;
        for (int i = 0; nc.s && i < 4000 && !ok; i++) {
            xcm_finish(nc.s); if (!sent && xcm_send(nc.s, m, 8) >= 0) sent = true;
            if (ncand < 6) { struct xcm_socket *x = xcm_accept(S.s); if (x) cand[ncand++] = x; }
            for (int k = 0; k < ncand && !ok; k++) {
                if (!cand[k] || cgot[k] >= 8) continue;
                int n = xcm_receive(cand[k], cb[k] + cgot[k], 8 - cgot[k]); if (n > 0) cgot[k] += (size_t)n;
                if (cgot[k] == 8 && !memcmp(cb[k], m, 8)) { ok = true; na.s = cand[k]; cand[k] = NULL; }
                if (cgot[k] > got) { got = cgot[k]; memcpy(rb, cb[k], 8); }
            }
            struct pollfd none; vs_real_poll(&none, 0, 1);
        }
        if (ncand > 1) { vobs("stray_server_side_connections", ncand - 1); char sc[120]; snprintf(sc, sizeof sc, "stray:%s>%s:p%d:closer-%s:n%d:pre%d:flushfail%d", leg_name[c.l1], leg_name[c.l2], c.pattern, c.closer_is_client ? "client" : "server", c.nconn, c.preload, flush_failed); vclass(sc); }
        if (!ok && ncand) { na.s = cand[0]; cand[0] = NULL; }
        for (int k = 0; k < 6; k++) if (cand[k]) xcm_close(cand[k]);
        if (!ok) {
            /* what is the relay doing?  CPU ticks over 300 ms, open descriptors, kernel wait channel */
            char pth[64], st1[600] = "", st2[600] = "", wch[64] = ""; long t1 = 0, t2 = 0; int nfd = 0;
            snprintf(pth, sizeof pth, "/proc/%d/stat", (int)rp); FILE *f = fopen(pth, "r"); if (f) { if (fgets(st1, sizeof st1, f)) {} fclose(f); }
            { struct pollfd none; vs_real_poll(&none, 0, 300); }
            f = fopen(pth, "r"); if (f) { if (fgets(st2, sizeof st2, f)) {} fclose(f); }
            { long u, k; char *q = strrchr(st1, ')'); if (q && sscanf(q + 2, "%*c %*d %*d %*d %*d %*d %*u %*u %*u %*u %*u %ld %ld", &u, &k) == 2) t1 = u + k; q = strrchr(st2, ')'); if (q && sscanf(q + 2, "%*c %*d %*d %*d %*d %*d %*u %*u %*u %*u %*u %ld %ld", &u, &k) == 2) t2 = u + k; }
            snprintf(pth, sizeof pth, "/proc/%d/wchan", (int)rp); f = fopen(pth, "r"); if (f) { if (fgets(wch, sizeof wch, f)) {} fclose(f); }
            snprintf(pth, sizeof pth, "/proc/%d/fd", (int)rp); { DIR *d = opendir(pth); struct dirent *de; while (d && (de = readdir(d))) if (de->d_name[0] != '.') nfd++; if (d) closedir(d); }
            cv("relay-stopped-serving", leg_name[c.l1], "after the first batch of connections was closed a new connection through the relay carried nothing within %d event-loop rounds (client connected: %s, message accepted: %d, server accepted: %s, %zu bytes arrived: %02x%02x%02x%02x%02x%02x%02x%02x); relay: %ld CPU ticks in 300 ms, %d descriptors, waiting in '%s', said: %s",
               4000, nc.s ? "yes" : "no", sent, na.s ? "yes" : "no", got, rb[0], rb[1], rb[2], rb[3], rb[4], rb[5], rb[6], rb[7], t2 - t1, nfd, wch, relay_said());
        } else vobs("relay_served_again", 1);
        if (nc.s) xcm_close(nc.s); if (na.s) xcm_close(na.s);
    }
    { char sg[100]; snprintf(sg, sizeof sg, "%s>%s|n%d|p%d|pre%d|%d|r%d", leg_name[c.l1], leg_name[c.l2], c.nconn > 1, c.pattern, c.preload, c.closer_is_client, c.refuse); vsig_str(sg); }
out:
    for (int i = 0; i < c.nconn; i++) { if (rc[i].c.s) vx_close(&rc[i].c); if (rc[i].a.s) vx_close(&rc[i].a); veng_ep_free(&rc[i].c); veng_ep_free(&rc[i].a); }
    if (S.s) vx_close(&S);
    if (rp > 0) { kill(rp, SIGTERM); int st; double tk = vnow(); while (waitpid(rp, &st, WNOHANG) != rp && vnow() - tk < 3) { struct pollfd none; vs_real_poll(&none, 0, 5); } kill(rp, SIGKILL); waitpid(rp, &st, 0); }
    /* anything the relay's sanitizer had to say */
    { FILE *f = fopen(errf, "r"); if (f) { static char buf[6000]; size_t n = fread(buf, 1, sizeof buf - 1, f); buf[n] = 0; fclose(f);
        if (strstr(buf, "ERROR: AddressSanitizer") || strstr(buf, "runtime error:")) { const char *p = strstr(buf, "ERROR: AddressSanitizer"); if (!p) p = strstr(buf, "runtime error:"); char first[200]; snprintf(first, sizeof first, "%.180s", p); for (char *q = first; *q; q++) if (*q == '\n') *q = ' '; cv("relay-sanitizer-report", "xcmrelay", "the relay process reported: %s", first); }
        unlink(errf); } }
    char cl[64]; snprintf(cl, sizeof cl, "%s>%s", leg_name[c.l1], leg_name[c.l2]); vclass(cl);
    if (idx < 2) vsample(ctx);
    vcase_done(true);
}

int main(int argc, char **argv)
{
    vparse_args(argc, argv);
    signal(SIGPIPE, SIG_IGN);
    veng_global_init();
    for (long i = 0; i < va.cases; i++) {
        if (va.only >= 0 && i != va.only) continue;
        if (va.only >= 0) { one_case(i, NULL); continue; }
        vfork_case(i, one_case, NULL, 150, "C20");
        if (vstop_early()) break;
    }
    vsummary(true);
    return 0;
}
