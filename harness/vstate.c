#include "vstate.h"

#include <poll.h>
#include <sys/socket.h>

const char *const vst_name[ST_N] = { "established", "peer-closed", "peer-closed-unseen", "failed", "backpressured",
                                     "connecting", "resolving", "handshaking" };

static const char *tp_prefix(enum vtp tp)
{
    switch (tp) {
    case TP_TCP: return "tcp";
    case TP_TLS: case TP_UTLS_TLS: return "tls";
    case TP_UTLS_UX: case TP_UTLS_FALLBACK: return "utls";
    case TP_BTCP: return "btcp";
    case TP_BTLS: return "btls";
    case TP_UX: return "ux";
    default: return "uxf";
    }
}

bool vstate_applicable(enum vtp tp, enum vst st)
{
    switch (st) {
    case ST_CONNECTING: case ST_RESOLVING: return vtp_is_tcp_based(tp) && tp != TP_UTLS_UX && tp != TP_UTLS_FALLBACK;
    case ST_HANDSHAKING: return vtp_is_tls(tp) && tp != TP_UTLS_FALLBACK;
    case ST_BACKPRESSURED: return tp != TP_UTLS_FALLBACK;
    default: return true;
    }
}

static struct xcm_socket *scoped_connect(struct vep *e, const char *addr, struct xcm_attr_map *attrs)
{
    struct vs_scope sc = { .active = true, .nonblocking = true, .api = "xcm_connect_a", .ep = e->id, .plan = &e->plan };
    vs_enter(&sc);
    struct xcm_socket *s = xcm_connect_a(addr, attrs);
    int se = errno;
    vs_leave();
    errno = se;
    return s;
}

int vstate_make(struct vstate *v, enum vtp tp, enum vst st, uint64_t seed,
                struct xcm_attr_map *conn_attrs, char *why, size_t why_cap)
{
    memset(v, 0, sizeof *v);
    v->tp = tp; v->st = st; v->raw_lfd = v->raw_cfd = -1; v->na.lfd = -1;
    veng_ep_init(&v->cl, 0, tp, vmix(seed ^ 11));
    veng_ep_init(&v->ac, 1, tp, vmix(seed ^ 12));
    veng_ep_init(&v->sv, 2, tp, vmix(seed ^ 13));
    why[0] = 0;
    if (!vstate_applicable(tp, st)) { snprintf(why, why_cap, "not applicable"); return -1; }

    if (st == ST_CONNECTING || st == ST_RESOLVING || st == ST_HANDSHAKING) {
        struct xcm_attr_map *ca = xcm_attr_map_create();
        xcm_attr_map_add_bool(ca, "xcm.blocking", false);
        if (vtp_is_bytestream(tp)) xcm_attr_map_add_str(ca, "xcm.service", "bytestream");
        if (conn_attrs) xcm_attr_map_add_all(ca, conn_attrs);
        char addr[256];
        const char *ip = "127.0.0.51";
        const char *ips[1] = { ip };
        v->port = vnet_pick_port(ips, 1);
        if (v->port < 0) { snprintf(why, why_cap, "no free port"); xcm_attr_map_destroy(ca); return -1; }
        if (st == ST_CONNECTING) {
            if (vnet_noanswer_open(&v->na, ip, v->port) < 0) { snprintf(why, why_cap, "no-answer listener failed"); xcm_attr_map_destroy(ca); return -1; }
            v->have_na = true;
            snprintf(addr, sizeof addr, "%s:%s:%d", tp_prefix(tp), ip, v->port);
            if (!xcm_attr_map_exists(ca, "tcp.connect_timeout")) xcm_attr_map_add_double(ca, "tcp.connect_timeout", 60.0);
        } else if (st == ST_RESOLVING) {
            struct vdns_plan dp; memset(&dp, 0, sizeof dp);
            snprintf(dp.name, sizeof dp.name, "held.verif.test");
            dp.deliver = VDNS_NEVER;
            vdns_enable(true); vdns_set(&dp);
            snprintf(addr, sizeof addr, "%s:held.verif.test:%d", tp_prefix(tp), v->port);
            if (!xcm_attr_map_exists(ca, "dns.timeout")) xcm_attr_map_add_double(ca, "dns.timeout", 60.0);
        } else {
            v->raw_lfd = vnet_listen(ip, v->port, 4);
            if (v->raw_lfd < 0) { snprintf(why, why_cap, "raw listener failed"); xcm_attr_map_destroy(ca); return -1; }
            snprintf(addr, sizeof addr, "%s:%s:%d", tp_prefix(tp), ip, v->port);
        }
        v->cl.s = scoped_connect(&v->cl, addr, ca);
        int se = errno;
        xcm_attr_map_destroy(ca);
        if (!v->cl.s) { snprintf(why, why_cap, "xcm_connect_a(%s) failed: %s", addr, strerror(se)); return -1; }
        v->cl.fd_num = vx_fd(&v->cl);
        if (st == ST_HANDSHAKING) {
            /* let the TCP connection establish and the ClientHello leave; the peer never answers */
            for (int i = 0; i < 50 && v->raw_cfd < 0; i++) {
                vx_finish(&v->cl);
                struct pollfd p = { .fd = v->raw_lfd, .events = POLLIN };
                if (vs_real_poll(&p, 1, 5) > 0) { v->raw_cfd = vnet_accept_peer(v->raw_lfd, vs_ledger_data_fd(v->cl.id), 20, NULL); if (v->raw_cfd >= 0) vs_mark_harness_fd(v->raw_cfd); }
            }
            if (v->raw_cfd < 0) { snprintf(why, why_cap, "raw peer saw no connection"); return -1; }
            for (int i = 0; i < 5; i++) vx_finish(&v->cl);
        }
        int rc = vx_finish(&v->cl);
        if (!(rc < 0 && errno == EAGAIN)) { snprintf(why, why_cap, "socket is not held in %s: finish -> %d errno %d", vst_name[st], rc, errno); return -1; }
        return 0;
    }

    struct vpair_opts po = { .user_timeout = 60, .conn_attrs = conn_attrs };
    if (veng_pair(tp, &v->cl, &v->ac, &v->sv, &po, why, why_cap) < 0) return -1;
    unsigned char buf[70000];
    switch (st) {
    case ST_ESTABLISHED: break;
    case ST_PEER_CLOSED: case ST_PEER_CLOSED_UNSEEN:
        vx_close(&v->ac);
        if (st == ST_PEER_CLOSED) {
            int rc = -1;
            for (int i = 0; i < 2000; i++) { rc = vx_receive(&v->cl, buf, sizeof buf); if (rc == 0 || (rc < 0 && errno != EAGAIN)) break; struct pollfd none; vs_real_poll(&none, 0, 1); }
            if (rc != 0) { snprintf(why, why_cap, "peer close not seen as 0 (rc %d errno %d)", rc, errno); return -1; }
            v->cl.term = 1;
        }
        break;
    case ST_FAILED: {
        if (vtp_is_ux(tp)) {
            /* AF_UNIX: make the peer vanish with unread data queued towards it => ECONNRESET on the next read */
            memset(buf, 1, 100);
            vx_send(&v->cl, buf, 100); vx_finish(&v->cl);
            vx_close(&v->ac);
        } else {
            v->cl.plan.fail_call = VS_RECV; v->cl.plan.fail_at = (int)v->cl.plan.n_call[VS_RECV] + 1; v->cl.plan.fail_errno = ECONNRESET; v->cl.plan.fail_fired = false;
        }
        int rc = 0;
        for (int i = 0; i < 2000; i++) { rc = vx_receive(&v->cl, buf, sizeof buf); if (rc < 0 && errno != EAGAIN) break; if (rc == 0) break; struct pollfd none; vs_real_poll(&none, 0, 1); }
        v->cl.plan.fail_at = 0;
        if (!(rc < 0 && errno == ECONNRESET)) { snprintf(why, why_cap, "connection did not fail with ECONNRESET (rc %d errno %d)", rc, errno); return -1; }
        v->cl.term = 2; v->cl.term_errno = ECONNRESET;
        break;
    }
    case ST_BACKPRESSURED: {
        memset(buf, 0x42, sizeof buf);
        int refused = 0;
        for (int i = 0; i < 20000 && refused < 3; i++) {
            int rc = vx_send(&v->cl, buf, 60000);
            if (rc < 0 && errno == EAGAIN) refused++;
            else if (rc < 0) { snprintf(why, why_cap, "send failed while building back-pressure: %s", strerror(errno)); return -1; }
            else refused = 0;
        }
        if (refused < 3) { snprintf(why, why_cap, "no back-pressure reached"); return -1; }
        break;
    }
    default: break;
    }
    return 0;
}

int vstate_sockets(struct vstate *v, struct vep **out, int max)
{
    int n = 0;
    if (v->cl.s && n < max) out[n++] = &v->cl;
    if (v->ac.s && n < max) out[n++] = &v->ac;
    if (v->sv.s && n < max) out[n++] = &v->sv;
    return n;
}

void vstate_free(struct vstate *v)
{
    v->cl.plan.quiet = v->ac.plan.quiet = true;
    if (v->cl.s) vx_close(&v->cl);
    if (v->ac.s) vx_close(&v->ac);
    if (v->sv.s) vx_close(&v->sv);
    if (v->have_na) vnet_noanswer_close(&v->na);
    if (v->raw_cfd >= 0) close(v->raw_cfd);
    if (v->raw_lfd >= 0) close(v->raw_lfd);
    if (v->st == ST_RESOLVING) vdns_enable(false);
    veng_ep_free(&v->cl); veng_ep_free(&v->ac); veng_ep_free(&v->sv);
}
