/* vpki.h - in-process PKI generator (libcrypto, EC P-256) for the TLS checks */
#ifndef VPKI_H
#define VPKI_H
#include <stdbool.h>
#include <stddef.h>
#include <openssl/x509.h>
#include <openssl/evp.h>

#define VPKI_EKU_NONE   0   /* no EKU extension */
#define VPKI_EKU_SERVER 1
#define VPKI_EKU_CLIENT 2
#define VPKI_EKU_BOTH   3

struct vpki_ent {
    char name[80];              /* subject CN */
    X509 *x;
    EVP_PKEY *key;
    char *cert_pem;             /* this certificate only */
    char *key_pem;
    struct vpki_ent *issuer;    /* NULL for self-signed */
    bool is_ca;
    long not_before_off, not_after_off;   /* seconds relative to now */
    int eku;
    unsigned char ski[20];
    long serial;
};

struct vpki_opts {
    bool is_ca;
    long not_before_off, not_after_off;   /* default -3600 .. +86400*365 */
    int eku;
    const char *const *san_dns;   int n_san_dns;
    const char *const *san_email; int n_san_email;
    const char *const *san_dir_cn; int n_san_dir_cn;
    bool no_ski;
    int ski_len;                  /* > 0: a subject key identifier of that many bytes instead of the usual 20-byte hash */
    bool rsa_key;                 /* RSA-2048 key pair instead of EC P-256 */
    int subject_extra_ous;        /* further OU components of 60 characters each in the subject */
};

void vpki_opts_default(struct vpki_opts *o);
/* issuer NULL => self-signed */
struct vpki_ent *vpki_make(const char *cn, struct vpki_ent *issuer, const struct vpki_opts *o);
void vpki_free(struct vpki_ent *e);

/* CRL signed by issuer revoking the given entities (may be 0); returns malloc'd PEM.
 * next_update_off: seconds relative to now for nextUpdate (negative => expired CRL) */
char *vpki_make_crl(struct vpki_ent *issuer, struct vpki_ent *const *revoked, int n_revoked,
                    long last_update_off, long next_update_off);

/* concatenate PEMs; returns malloc'd string */
char *vpki_concat(const char *a, const char *b);
/* chain PEM: leaf followed by intermediates up to (excluding) the root */
char *vpki_chain_pem(const struct vpki_ent *leaf, bool include_intermediates);

int vpki_write_file(const char *path, const char *data);
/* write cert.pem key.pem tc.pem [crl.pem] into dir (created) */
int vpki_write_dir(const char *dir, const char *cert_pem, const char *key_pem, const char *tc_pem, const char *crl_pem);

#endif
