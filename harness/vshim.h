/* vshim.h - link-time interposition of the libc calls made below XCM (and
 * below OpenSSL / c-ares when they are called from XCM).  The wrappers are
 * defined in the harness executable (-rdynamic) and forward with
 * dlsym(RTLD_NEXT).  They act only inside a *scope* (thread-local), which
 * the harness opens around each XCM API call. */
#ifndef VSHIM_H
#define VSHIM_H

#include <stdbool.h>
#include <stdint.h>
#include <stddef.h>

enum vs_call {
    VS_SEND, VS_RECV, VS_CONNECT, VS_ACCEPT, VS_SOCKET, VS_BIND, VS_LISTEN, VS_CLOSE,
    VS_EPOLL_CREATE, VS_EPOLL_CTL, VS_EVENTFD, VS_TIMERFD_CREATE, VS_TIMERFD_SETTIME,
    VS_SETSOCKOPT, VS_GETSOCKOPT, VS_POLL, VS_FOPEN, VS_UNLINK, VS_GETSOCKNAME, VS_GETPEERNAME,
    VS_FCNTL, VS_NCALLS
};
extern const char *const vs_call_name[VS_NCALLS];

/* wire framing tracked for statistics */
enum vs_wire { VS_WIRE_NONE, VS_WIRE_XCM, VS_WIRE_TLS };

struct vs_plan {
    uint64_t rng;
    /* fragmentation of stream-socket I/O */
    int frag_send_pct, frag_recv_pct;   /* chance that a call is shortened */
    int frag_max;                       /* shortened calls move 1..frag_max bytes (biased to 1..5) */
    /* refusals */
    int eagain_send_pct, eagain_recv_pct;
    int max_consec_eagain;              /* per direction */
    int consec_send, consec_recv;
    bool refuse_after_partial;          /* after a shortened send the next send on that fd is refused */
    bool pending_refuse;
    bool quiet;                         /* injections off (drain phase) */
    int forced_refusals;                /* the next n data send()s are refused (EAGAIN) whatever else is configured, quiet included */
    /* fail-at: the n-th in-scope call of kind fail_call returns -1/errno, no side effect */
    int fail_call, fail_at, fail_errno;
    bool fail_fired;
    int fail_fd;                        /* fd on which it fired */
    /* eintr-at: the n-th poll with timeout<0 inside a blocking scope returns EINTR */
    int eintr_at;
    bool eintr_fired;
    int eintr_after_accept;             /* diagnostic: from_app at the time (filled by harness) */
    /* counters (per plan) */
    long n_call[VS_NCALLS];
    long n_short_send, n_short_recv, n_eagain_send, n_eagain_recv;
    long n_real_eagain_send, n_real_eagain_recv;
    long n_blocking_polls;
    /* stream statistics */
    enum vs_wire wire;
    long hdr_split_out, hdr_split_in, frame_split_out, frame_split_in, frames_out, frames_in;
    long refused_mid_frame;             /* a refusal hit while a frame was partly written */
    long long bytes_in, bytes_out;      /* bytes moved by recv/send on data sockets inside scopes using this plan */
};

struct vs_scope {
    bool active;
    bool nonblocking;       /* the XCM socket the call is made on is in non-blocking mode */
    const char *api;        /* name of the XCM call */
    int ep;                 /* harness endpoint id */
    struct vs_plan *plan;   /* may be NULL: observe only */
};

void vs_plan_init(struct vs_plan *p, uint64_t seed);
void vs_enter(struct vs_scope *sc);       /* copies *sc into the thread-local scope */
void vs_leave(void);
struct vs_scope *vs_cur(void);

/* descriptor ledger */
enum vs_owner { VS_OWN_NONE = 0, VS_OWN_XCM = 1, VS_OWN_HARNESS = 2 };
void vs_ledger_reset(void);
int vs_ledger_owner(int fd);
int vs_ledger_creator(int fd);            /* enum vs_call that created it */
int vs_ledger_ep(int fd);                 /* endpoint in whose scope it was created */
/* find the (first) live stream/seqpacket data socket created in the scope of endpoint ep (-1 if none) */
int vs_ledger_data_fd(int ep);
int vs_ledger_count_xcm(void);
void vs_ledger_dump(char *buf, size_t cap);
void vs_mark_harness_fd(int fd);          /* fds the harness itself owns and XCM must never touch */

/* violations noticed by the shim itself (C05 waits, C08 stray operations) are
 * queued here for the harness to report with its own context */
struct vs_alarm { char rule[32]; char what[200]; int fd; int ep; const char *api; };
int vs_alarms_take(struct vs_alarm *out, int max);
void vs_set_watch(bool c05_waits, bool c08_strays);

/* called once, from inside the next fopen() made within a scope whose path ends with `suffix` (before the file is opened): lets a test
 * change files between two reads of one library call */
void vs_set_fopen_hook(const char *suffix, void (*fn)(const char *path, void *arg), void *arg);

/* true while timerfds armed by XCM exist (set through timerfd_settime) */
int vs_armed_timers(void);

/* event ring for replay/debug */
void vs_ring_dump(char *buf, size_t cap);
void vs_note(const char *fmt, ...) __attribute__((format(printf, 1, 2)));

/* real (un-interposed) entry points for the harness's own use */
long vs_real_send(int fd, const void *b, size_t n, int flags);
long vs_real_recv(int fd, void *b, size_t n, int flags);
int vs_real_close(int fd);
int vs_real_poll(void *fds, unsigned long n, int timeout);

#endif
