#include "vshim.h"

#include <dlfcn.h>
#include <errno.h>
#include <fcntl.h>
#include <netinet/in.h>
#include <arpa/inet.h>
#include <poll.h>
#include <pthread.h>
#include <stdarg.h>
#include <stdio.h>
#include <stdlib.h>
#include <string.h>
#include <sys/epoll.h>
#include <sys/eventfd.h>
#include <sys/socket.h>
#include <sys/stat.h>
#include <sys/timerfd.h>
#include <sys/un.h>
#include <time.h>
#include <unistd.h>

const char *const vs_call_name[VS_NCALLS] = {
    "send", "recv", "connect", "accept4", "socket", "bind", "listen", "close",
    "epoll_create1", "epoll_ctl", "eventfd", "timerfd_create", "timerfd_settime",
    "setsockopt", "getsockopt", "poll", "fopen", "unlink", "getsockname", "getpeername", "fcntl"
};

static __thread struct vs_scope cur;
static pthread_mutex_t mu = PTHREAD_MUTEX_INITIALIZER;

#define MAXFD 8192
struct trk { int hdr_have; unsigned char hdr[5]; long payload_left; int calls_hdr, calls_frame; bool counted_call; bool dead; };
struct fdent {
    unsigned char owner;      /* enum vs_owner */
    unsigned char creator;    /* enum vs_call */
    unsigned char kind;       /* 0 other, 1 stream socket, 2 seqpacket/dgram unix socket */
    bool is_ctl;
    bool listener;
    bool armed;               /* timerfd armed */
    int ep;
    struct trk out, in;
};
static struct fdent fds[MAXFD];
static bool watch_c05, watch_c08;
static char ctl_dir[256];

#define MAX_ALARMS 32
static struct vs_alarm alarms[MAX_ALARMS];
static int n_alarms;

#define RING 512
static char ring[RING][160];
static unsigned long ring_n;

static uint64_t prng(struct vs_plan *p)
{
    p->rng += 0x9E3779B97F4A7C15ULL; uint64_t z = p->rng;
    z = (z ^ (z >> 30)) * 0xBF58476D1CE4E5B9ULL; z = (z ^ (z >> 27)) * 0x94D049BB133111EBULL;
    return z ^ (z >> 31);
}

void vs_plan_init(struct vs_plan *p, uint64_t seed)
{
    memset(p, 0, sizeof *p);
    p->rng = seed; p->frag_max = 7; p->max_consec_eagain = 3; p->fail_fd = -1;
}
static __thread long clock_reads;      /* clock_gettime calls inside the current scope */
void vs_enter(struct vs_scope *sc) { cur = *sc; cur.active = true; clock_reads = 0; }
void vs_leave(void) { cur.active = false; }
struct vs_scope *vs_cur(void) { return &cur; }
void vs_set_watch(bool c05, bool c08) { watch_c05 = c05; watch_c08 = c08; }

void vs_note(const char *fmt, ...)
{
    char t[160]; va_list ap; va_start(ap, fmt); vsnprintf(t, sizeof t, fmt, ap); va_end(ap);
    pthread_mutex_lock(&mu);
    snprintf(ring[ring_n % RING], sizeof ring[0], "%s", t); ring_n++;
    pthread_mutex_unlock(&mu);
}

void vs_ring_dump(char *buf, size_t cap)
{
    size_t o = 0; buf[0] = 0;
    pthread_mutex_lock(&mu);
    unsigned long start = ring_n > RING ? ring_n - RING : 0;
    /* keep the tail that fits */
    size_t need = 0; unsigned long first = ring_n;
    while (first > start) { size_t l = strlen(ring[(first - 1) % RING]) + 1; if (need + l + 1 >= cap) break; need += l; first--; }
    for (unsigned long i = first; i < ring_n; i++) o += (size_t)snprintf(buf + o, cap - o, "%s|", ring[i % RING]);
    pthread_mutex_unlock(&mu);
}

static void alarm_add(const char *rule, int fd, const char *fmt, ...)
{
    char t[200]; va_list ap; va_start(ap, fmt); vsnprintf(t, sizeof t, fmt, ap); va_end(ap);
    pthread_mutex_lock(&mu);
    if (n_alarms < MAX_ALARMS) {
        struct vs_alarm *a = &alarms[n_alarms++];
        snprintf(a->rule, sizeof a->rule, "%s", rule); snprintf(a->what, sizeof a->what, "%s", t);
        a->fd = fd; a->ep = cur.ep; a->api = cur.api;
    }
    pthread_mutex_unlock(&mu);
}

int vs_alarms_take(struct vs_alarm *out, int max)
{
    pthread_mutex_lock(&mu);
    int n = n_alarms < max ? n_alarms : max;
    memcpy(out, alarms, (size_t)n * sizeof *out);
    n_alarms = 0;
    pthread_mutex_unlock(&mu);
    return n;
}

/* ---- ledger ---- */
void vs_ledger_reset(void)
{
    pthread_mutex_lock(&mu);
    memset(fds, 0, sizeof fds);
    n_alarms = 0;
    const char *d = getenv("XCM_CTL");
    snprintf(ctl_dir, sizeof ctl_dir, "%s", d ? d : "/run/xcm/ctl");
    pthread_mutex_unlock(&mu);
}
int vs_ledger_owner(int fd) { return fd >= 0 && fd < MAXFD ? fds[fd].owner : 0; }
int vs_ledger_creator(int fd) { return fd >= 0 && fd < MAXFD ? fds[fd].creator : 0; }
int vs_ledger_ep(int fd) { return fd >= 0 && fd < MAXFD ? fds[fd].ep : -1; }
int vs_ledger_data_fd(int ep)
{
    int found = -1;
    pthread_mutex_lock(&mu);
    for (int i = 0; i < MAXFD; i++)
        if (fds[i].owner == VS_OWN_XCM && fds[i].ep == ep && fds[i].kind != 0 && !fds[i].is_ctl && !fds[i].listener) { found = i; break; }
    pthread_mutex_unlock(&mu);
    return found;
}
int vs_ledger_count_xcm(void)
{ int n = 0; for (int i = 0; i < MAXFD; i++) if (fds[i].owner == VS_OWN_XCM) n++; return n; }
void vs_ledger_dump(char *buf, size_t cap)
{
    size_t o = 0; buf[0] = 0;
    for (int i = 0; i < MAXFD && o + 40 < cap; i++)
        if (fds[i].owner == VS_OWN_XCM) o += (size_t)snprintf(buf + o, cap - o, "%d:%s@ep%d ", i, vs_call_name[fds[i].creator], fds[i].ep);
}
void vs_mark_harness_fd(int fd)
{ if (fd >= 0 && fd < MAXFD) { pthread_mutex_lock(&mu); memset(&fds[fd], 0, sizeof fds[fd]); fds[fd].owner = VS_OWN_HARNESS; fds[fd].ep = -1; pthread_mutex_unlock(&mu); } }
int vs_armed_timers(void)
{
    /* ask the kernel: a one-shot timer that has expired is no longer armed (and its descriptor is readable) */
    int n = 0;
    for (int i = 0; i < MAXFD; i++)
        if (fds[i].owner == VS_OWN_XCM && fds[i].creator == VS_TIMERFD_CREATE) {
            struct itimerspec its;
            if (timerfd_gettime(i, &its) == 0 && (its.it_value.tv_sec || its.it_value.tv_nsec)) n++;
        }
    return n;
}

static void ledger_add(int fd, int creator, int kind)
{
    if (fd < 0 || fd >= MAXFD) return;
    pthread_mutex_lock(&mu);
    memset(&fds[fd], 0, sizeof fds[fd]);
    fds[fd].owner = cur.active ? VS_OWN_XCM : VS_OWN_NONE;
    fds[fd].creator = (unsigned char)creator; fds[fd].kind = (unsigned char)kind; fds[fd].ep = cur.active ? cur.ep : -1;
    pthread_mutex_unlock(&mu);
}

/* ---- stream trackers ---- */
static void trk_feed(struct vs_plan *p, struct trk *t, const unsigned char *b, size_t n, bool out)
{
    if (!p || p->wire == VS_WIRE_NONE || t->dead || n == 0) return;
    int hl = p->wire == VS_WIRE_XCM ? 4 : 5;
    size_t i = 0;
    bool call_in_hdr = false, call_in_frame = false;
    while (i < n) {
        if (t->hdr_have < hl) {
            if (!call_in_hdr) { t->calls_hdr++; call_in_hdr = true; }
            if (!call_in_frame) { t->calls_frame++; call_in_frame = true; }
            size_t k = (size_t)(hl - t->hdr_have); if (k > n - i) k = n - i;
            memcpy(t->hdr + t->hdr_have, b + i, k); t->hdr_have += (int)k; i += k;
            if (t->hdr_have == hl) {
                if (t->calls_hdr >= 2) { if (out) p->hdr_split_out++; else p->hdr_split_in++; }
                if (p->wire == VS_WIRE_XCM) {
                    unsigned long len = ((unsigned long)t->hdr[0] << 24) | ((unsigned long)t->hdr[1] << 16) | ((unsigned long)t->hdr[2] << 8) | t->hdr[3];
                    if (len > 65535) { t->dead = true; return; }
                    t->payload_left = (long)len;
                } else {
                    if (t->hdr[0] < 20 || t->hdr[0] > 24) { t->dead = true; return; }
                    t->payload_left = ((long)t->hdr[3] << 8) | t->hdr[4];
                }
                if (t->payload_left == 0) goto frame_done;
            }
            continue;
        }
        if (!call_in_frame) { t->calls_frame++; call_in_frame = true; }
        {
            size_t k = (size_t)t->payload_left; if (k > n - i) k = n - i;
            t->payload_left -= (long)k; i += k;
        }
        if (t->payload_left == 0) {
        frame_done:
            if (t->calls_frame >= 2) { if (out) p->frame_split_out++; else p->frame_split_in++; }
            if (out) p->frames_out++; else p->frames_in++;
            t->hdr_have = 0; t->calls_hdr = 0; t->calls_frame = 0;
            call_in_hdr = false; call_in_frame = false;
        }
    }
}
static bool trk_mid(const struct trk *t) { return !t->dead && (t->hdr_have > 0 || t->payload_left > 0); }

/* ---- real functions ---- */
#define REAL(name) static __typeof__(name) *real_##name; if (!real_##name) real_##name = dlsym(RTLD_NEXT, #name)

long vs_real_send(int fd, const void *b, size_t n, int flags) { REAL(send); return real_send(fd, b, n, flags); }
long vs_real_recv(int fd, void *b, size_t n, int flags) { REAL(recv); return real_recv(fd, b, n, flags); }
int vs_real_close(int fd) { REAL(close); return real_close(fd); }
int vs_real_poll(void *p, unsigned long n, int timeout) { REAL(poll); return real_poll(p, n, timeout); }

static bool fd_nonblocking(int fd)
{
    REAL(fcntl);
    int fl = real_fcntl(fd, F_GETFL, 0);
    return fl >= 0 && (fl & O_NONBLOCK);
}

/* fail-at: returns true if this in-scope call must fail now */
static bool fail_now(int call, int fd)
{
    struct vs_plan *p = cur.plan;
    if (!cur.active || !p) return false;
    p->n_call[call]++;
    if (p->fail_at > 0 && p->fail_call == call && !p->fail_fired && p->n_call[call] == p->fail_at) {
        p->fail_fired = true; p->fail_fd = fd;
        vs_note("INJECT %s#%d fd%d errno=%d api=%s ep%d", vs_call_name[call], p->fail_at, fd, p->fail_errno, cur.api, cur.ep);
        return true;
    }
    return false;
}

static int frag_len(struct vs_plan *p, size_t n)
{
    unsigned r = (unsigned)(prng(p) % 100);
    int k;
    if (r < 30) k = 1;
    else if (r < 50) k = 2;
    else if (r < 65) k = 3;
    else if (r < 75) k = 4;
    else if (r < 85) k = 5;
    else k = 1 + (int)(prng(p) % (unsigned)(p->frag_max > 0 ? p->frag_max : 1));
    if ((size_t)k > n) k = (int)n;
    return k;
}

ssize_t send(int fd, const void *buf, size_t len, int flags)
{
    REAL(send);
    if (!cur.active) return real_send(fd, buf, len, flags);
    struct vs_plan *p = cur.plan;
    struct fdent *e = fd >= 0 && fd < MAXFD ? &fds[fd] : NULL;
    if (watch_c05 && cur.nonblocking && !(flags & MSG_DONTWAIT) && !fd_nonblocking(fd))
        alarm_add("c05-blocking-io", fd, "send() on a descriptor without O_NONBLOCK inside %s on a non-blocking socket", cur.api);
    if (watch_c08 && e && e->owner == VS_OWN_HARNESS)
        alarm_add("c08-foreign-fd", fd, "send() on descriptor %d which XCM did not create (in %s)", fd, cur.api);
    if (watch_c08 && cur.api && !strcmp(cur.api, "xcm_cleanup"))
        alarm_add("c08-cleanup-io", fd, "send(%zu bytes) on descriptor %d during xcm_cleanup (the connection belongs to the owner process)", len, fd);
    if (fail_now(VS_SEND, fd)) { errno = p->fail_errno; return -1; }
    bool data = e && e->kind != 0 && !e->is_ctl;
    if (p && data && len > 0 && p->forced_refusals > 0) {
        p->forced_refusals--; p->n_eagain_send++;
        if (trk_mid(&e->out)) p->refused_mid_frame++;
        vs_note("send fd%d len%zu -> forced EAGAIN (%s ep%d)", fd, len, cur.api, cur.ep);
        errno = EAGAIN; return -1;
    }
    if (p && data && !p->quiet && len > 0) {
        bool refuse = false;
        if (p->pending_refuse) { refuse = true; p->pending_refuse = false; }
        else if (p->eagain_send_pct > 0 && p->consec_send < p->max_consec_eagain && (int)(prng(p) % 100) < p->eagain_send_pct) refuse = true;
        if (refuse) {
            p->consec_send++; p->n_eagain_send++;
            if (trk_mid(&e->out)) p->refused_mid_frame++;
            vs_note("send fd%d len%zu -> inj EAGAIN (%s ep%d)", fd, len, cur.api, cur.ep);
            errno = EAGAIN; return -1;
        }
        p->consec_send = 0;
        if (e->kind == 1 && p->frag_send_pct > 0 && len > 1 && (int)(prng(p) % 100) < p->frag_send_pct) {
            int k = frag_len(p, len - 1);
            ssize_t rc = real_send(fd, buf, (size_t)k, flags);
            if (rc > 0) { p->n_short_send++; p->bytes_out += rc; trk_feed(p, &e->out, buf, (size_t)rc, true); if (p->refuse_after_partial) p->pending_refuse = true; }
            else if (rc < 0 && errno == EAGAIN) p->n_real_eagain_send++;
            vs_note("send fd%d len%zu -> short %zd (%s ep%d)", fd, len, rc, cur.api, cur.ep);
            return rc;
        }
    }
    ssize_t rc = real_send(fd, buf, len, flags);
    int se = errno;
    if (p && data) {
        if (rc > 0) { p->bytes_out += rc; trk_feed(p, &e->out, buf, (size_t)rc, true); }
        else if (rc < 0 && se == EAGAIN) { p->n_real_eagain_send++; if (trk_mid(&e->out)) p->refused_mid_frame++; }
    }
    vs_note("send fd%d len%zu -> %zd e%d (%s ep%d)", fd, len, rc, rc < 0 ? se : 0, cur.api, cur.ep);
    errno = se;
    return rc;
}

ssize_t recv(int fd, void *buf, size_t len, int flags)
{
    REAL(recv);
    if (!cur.active) return real_recv(fd, buf, len, flags);
    struct vs_plan *p = cur.plan;
    struct fdent *e = fd >= 0 && fd < MAXFD ? &fds[fd] : NULL;
    if (watch_c05 && cur.nonblocking && !(flags & MSG_DONTWAIT) && !fd_nonblocking(fd))
        alarm_add("c05-blocking-io", fd, "recv() on a descriptor without O_NONBLOCK inside %s on a non-blocking socket", cur.api);
    if (watch_c08 && e && e->owner == VS_OWN_HARNESS)
        alarm_add("c08-foreign-fd", fd, "recv() on descriptor %d which XCM did not create (in %s)", fd, cur.api);
    if (fail_now(VS_RECV, fd)) { errno = p->fail_errno; return -1; }
    bool data = e && e->kind != 0 && !e->is_ctl;
    size_t ask = len;
    if (p && data && !p->quiet && len > 0) {
        if (p->eagain_recv_pct > 0 && p->consec_recv < p->max_consec_eagain && (int)(prng(p) % 100) < p->eagain_recv_pct) {
            p->consec_recv++; p->n_eagain_recv++;
            vs_note("recv fd%d cap%zu -> inj EAGAIN (%s ep%d)", fd, len, cur.api, cur.ep);
            errno = EAGAIN; return -1;
        }
        p->consec_recv = 0;
        if (e->kind == 1 && p->frag_recv_pct > 0 && len > 1 && (int)(prng(p) % 100) < p->frag_recv_pct)
            ask = (size_t)frag_len(p, len - 1);
    }
    ssize_t rc = real_recv(fd, buf, ask, flags);
    int se = errno;
    if (p && data) {
        if (rc > 0) { if (ask < len) p->n_short_recv++; p->bytes_in += rc; trk_feed(p, &e->in, buf, (size_t)rc, false); }
        else if (rc < 0 && se == EAGAIN) p->n_real_eagain_recv++;
    }
    vs_note("recv fd%d cap%zu ask%zu -> %zd e%d (%s ep%d)", fd, len, ask, rc, rc < 0 ? se : 0, cur.api, cur.ep);
    errno = se;
    return rc;
}

int socket(int domain, int type, int protocol)
{
    REAL(socket);
    if (fail_now(VS_SOCKET, -1)) { errno = cur.plan->fail_errno; return -1; }
    int fd = real_socket(domain, type, protocol);
    if (fd >= 0) {
        int bt = type & 0xf;
        int kind = bt == SOCK_STREAM ? 1 : (domain == AF_UNIX ? 2 : 0);
        ledger_add(fd, VS_SOCKET, kind);
        if (cur.active) vs_note("socket(%d,%d) -> fd%d (%s ep%d)", domain, bt, fd, cur.api, cur.ep);
    }
    return fd;
}

int accept4(int sockfd, struct sockaddr *addr, socklen_t *addrlen, int flags)
{
    REAL(accept4);
    if (cur.active && watch_c05 && cur.nonblocking && !fd_nonblocking(sockfd))
        alarm_add("c05-blocking-io", sockfd, "accept4() on a blocking listener inside %s on a non-blocking socket", cur.api);
    if (fail_now(VS_ACCEPT, sockfd)) { errno = cur.plan->fail_errno; return -1; }
    int fd = real_accept4(sockfd, addr, addrlen, flags);
    int se = errno;
    if (fd >= 0) {
        int kind = 0; bool ctl = false;
        if (sockfd >= 0 && sockfd < MAXFD) { kind = fds[sockfd].kind; ctl = fds[sockfd].is_ctl; }
        ledger_add(fd, VS_ACCEPT, kind);
        if (fd < MAXFD) fds[fd].is_ctl = ctl;
        if (cur.active) vs_note("accept4(fd%d) -> fd%d (%s ep%d)", sockfd, fd, cur.api, cur.ep);
    }
    errno = se;
    return fd;
}

int accept(int sockfd, struct sockaddr *addr, socklen_t *addrlen) { return accept4(sockfd, addr, addrlen, 0); }

/* connect log for C13 */
#define MAX_CONN_LOG 256
static struct { int fd; char addr[64]; int rc, err; int ep; double t; } conn_log[MAX_CONN_LOG];
static int n_conn_log;
int vs_connect_log_count(void) { return n_conn_log; }
const char *vs_connect_log_get(int i, int *fd, int *rc, int *err, double *t)
{ if (fd) *fd = conn_log[i].fd; if (rc) *rc = conn_log[i].rc; if (err) *err = conn_log[i].err; if (t) *t = conn_log[i].t; return conn_log[i].addr; }
void vs_connect_log_reset(void) { n_conn_log = 0; }

int connect(int fd, const struct sockaddr *addr, socklen_t len)
{
    REAL(connect);
    if (!cur.active) return real_connect(fd, addr, len);
    if (watch_c05 && cur.nonblocking && !fd_nonblocking(fd))
        alarm_add("c05-blocking-io", fd, "connect() on a descriptor without O_NONBLOCK inside %s on a non-blocking socket", cur.api);
    char as[64] = "?";
    if (addr->sa_family == AF_INET) { const struct sockaddr_in *a = (const void *)addr; char t[32]; inet_ntop(AF_INET, &a->sin_addr, t, sizeof t); snprintf(as, sizeof as, "%s:%d", t, ntohs(a->sin_port)); }
    else if (addr->sa_family == AF_INET6) { const struct sockaddr_in6 *a = (const void *)addr; char t[48]; inet_ntop(AF_INET6, &a->sin6_addr, t, sizeof t); snprintf(as, sizeof as, "[%s]:%d", t, ntohs(a->sin6_port)); }
    else if (addr->sa_family == AF_UNIX) snprintf(as, sizeof as, "unix");
    int rc, se;
    if (fail_now(VS_CONNECT, fd)) { rc = -1; se = cur.plan->fail_errno; }
    else { rc = real_connect(fd, addr, len); se = errno; }
    pthread_mutex_lock(&mu);
    if (n_conn_log < MAX_CONN_LOG) {
        struct timespec ts; clock_gettime(CLOCK_MONOTONIC, &ts);
        conn_log[n_conn_log].fd = fd; snprintf(conn_log[n_conn_log].addr, sizeof conn_log[0].addr, "%s", as);
        conn_log[n_conn_log].rc = rc; conn_log[n_conn_log].err = rc < 0 ? se : 0; conn_log[n_conn_log].ep = cur.ep;
        conn_log[n_conn_log].t = ts.tv_sec + ts.tv_nsec / 1e9; n_conn_log++;
    }
    pthread_mutex_unlock(&mu);
    vs_note("connect fd%d %s -> %d e%d (%s ep%d)", fd, as, rc, rc < 0 ? se : 0, cur.api, cur.ep);
    errno = se;
    return rc;
}

int bind(int fd, const struct sockaddr *addr, socklen_t len)
{
    REAL(bind);
    if (fail_now(VS_BIND, fd)) { errno = cur.plan->fail_errno; return -1; }
    if (cur.active && watch_c08 && fd >= 0 && fd < MAXFD && fds[fd].owner == VS_OWN_HARNESS)
        alarm_add("c08-foreign-fd", fd, "bind() on descriptor %d which XCM did not create", fd);
    int rc = real_bind(fd, addr, len);
    int se = errno;
    if (rc == 0 && addr->sa_family == AF_UNIX && fd >= 0 && fd < MAXFD) {
        const struct sockaddr_un *u = (const void *)addr;
        if (u->sun_path[0] && ctl_dir[0] && !strncmp(u->sun_path, ctl_dir, strlen(ctl_dir))) fds[fd].is_ctl = true;
    }
    errno = se;
    return rc;
}

int listen(int fd, int backlog)
{
    REAL(listen);
    if (fail_now(VS_LISTEN, fd)) { errno = cur.plan->fail_errno; return -1; }
    int rc = real_listen(fd, backlog);
    if (rc == 0 && fd >= 0 && fd < MAXFD) fds[fd].listener = true;
    return rc;
}

int close(int fd)
{
    REAL(close);
    if (!cur.active) {
        if (fd >= 0 && fd < MAXFD) { pthread_mutex_lock(&mu); memset(&fds[fd], 0, sizeof fds[fd]); pthread_mutex_unlock(&mu); }
        return real_close(fd);
    }
    if (cur.plan) cur.plan->n_call[VS_CLOSE]++;
    int owner = fd >= 0 && fd < MAXFD ? fds[fd].owner : 0;
    if (watch_c08 && owner == VS_OWN_HARNESS)
        alarm_add("c08-stray-close", fd, "close(%d) of a descriptor XCM did not create (in %s)", fd, cur.api);
    int rc = real_close(fd);
    int se = errno;
    if (watch_c08 && rc < 0 && se == EBADF)
        alarm_add("c08-close-ebadf", fd, "close(%d) returned EBADF (double close or never opened) in %s", fd, cur.api);
    vs_note("close fd%d -> %d (%s ep%d)", fd, rc, cur.api, cur.ep);
    if (rc == 0 && fd >= 0 && fd < MAXFD && owner != VS_OWN_HARNESS) { pthread_mutex_lock(&mu); memset(&fds[fd], 0, sizeof fds[fd]); pthread_mutex_unlock(&mu); }
    errno = se;
    return rc;
}

int epoll_create1(int flags)
{
    REAL(epoll_create1);
    if (fail_now(VS_EPOLL_CREATE, -1)) { errno = cur.plan->fail_errno; return -1; }
    int fd = real_epoll_create1(flags);
    if (fd >= 0) ledger_add(fd, VS_EPOLL_CREATE, 0);
    return fd;
}

int epoll_ctl(int epfd, int op, int fd, struct epoll_event *ev)
{
    REAL(epoll_ctl);
    if (cur.active && cur.plan) cur.plan->n_call[VS_EPOLL_CTL]++;
    if (cur.active && watch_c08) {
        if (epfd >= 0 && epfd < MAXFD && fds[epfd].owner == VS_OWN_HARNESS)
            alarm_add("c08-foreign-fd", epfd, "epoll_ctl(op %d) on epoll instance %d which XCM did not create (in %s)", op, epfd, cur.api);
        if (fd >= 0 && fd < MAXFD && fds[fd].owner == VS_OWN_HARNESS && op != EPOLL_CTL_DEL)
            alarm_add("c08-foreign-fd", fd, "epoll_ctl(op %d) registering descriptor %d which XCM did not create (in %s)", op, fd, cur.api);
    }
    if (cur.active && watch_c08 && cur.api && !strcmp(cur.api, "xcm_cleanup"))
        alarm_add("c08-cleanup-epoll_ctl", fd, "epoll_ctl(op %d, fd %d) on epoll instance %d during xcm_cleanup: the instance is shared with the owner process", op, fd, epfd);
    int rc = real_epoll_ctl(epfd, op, fd, ev);
    int se = errno;
    if (cur.active) vs_note("epoll_ctl ep%d op%d fd%d ev%x -> %d e%d (%s ep%d)", epfd, op, fd, ev ? ev->events : 0, rc, rc < 0 ? se : 0, cur.api, cur.ep);
    if (cur.active && watch_c08 && rc == 0 && op == EPOLL_CTL_DEL && fd >= 0 && fd < MAXFD && fds[fd].owner == VS_OWN_HARNESS)
        alarm_add("c08-foreign-fd", fd, "successful epoll_ctl(DEL) of descriptor %d which XCM did not create (in %s)", fd, cur.api);
    errno = se;
    return rc;
}

int eventfd(unsigned int initval, int flags)
{
    REAL(eventfd);
    if (fail_now(VS_EVENTFD, -1)) { errno = cur.plan->fail_errno; return -1; }
    int fd = real_eventfd(initval, flags);
    if (fd >= 0) ledger_add(fd, VS_EVENTFD, 0);
    return fd;
}

int timerfd_create(int clockid, int flags)
{
    REAL(timerfd_create);
    if (fail_now(VS_TIMERFD_CREATE, -1)) { errno = cur.plan->fail_errno; return -1; }
    int fd = real_timerfd_create(clockid, flags);
    if (fd >= 0) ledger_add(fd, VS_TIMERFD_CREATE, 0);
    return fd;
}

/* a call that keeps reading the clock is waiting for time to pass without sleeping */
int clock_gettime(clockid_t id, struct timespec *ts)
{
    REAL(clock_gettime);
    if (cur.active && watch_c05 && cur.nonblocking && ++clock_reads == 20000)
        alarm_add("c05-spin", -1, "20000 clock reads inside one %s on a non-blocking socket: the call is busy-waiting for time to pass", cur.api);
    return real_clock_gettime(id, ts);
}

int timerfd_settime(int fd, int flags, const struct itimerspec *nv, struct itimerspec *ov)
{
    REAL(timerfd_settime);
    if (fail_now(VS_TIMERFD_SETTIME, fd)) { errno = cur.plan->fail_errno; return -1; }
    if (cur.active && watch_c08 && cur.api && !strcmp(cur.api, "xcm_cleanup"))
        alarm_add("c08-cleanup-timerfd_settime", fd, "timerfd_settime(%d, %s) during xcm_cleanup: the timer is shared with the owner process, whose pending timeout is changed", fd, nv->it_value.tv_sec || nv->it_value.tv_nsec ? "arm" : "disarm");
    int rc = real_timerfd_settime(fd, flags, nv, ov);
    if (rc == 0 && fd >= 0 && fd < MAXFD) fds[fd].armed = nv->it_value.tv_sec != 0 || nv->it_value.tv_nsec != 0;
    return rc;
}

int setsockopt(int fd, int level, int optname, const void *optval, socklen_t optlen)
{
    REAL(setsockopt);
    if (cur.active && watch_c08 && fd >= 0 && fd < MAXFD && fds[fd].owner == VS_OWN_HARNESS)
        alarm_add("c08-foreign-fd", fd, "setsockopt() on descriptor %d which XCM did not create (in %s)", fd, cur.api);
    if (fail_now(VS_SETSOCKOPT, fd)) { errno = cur.plan->fail_errno; return -1; }
    return real_setsockopt(fd, level, optname, optval, optlen);
}

int getsockopt(int fd, int level, int optname, void *optval, socklen_t *optlen)
{
    REAL(getsockopt);
    if (cur.active && level == SOL_SOCKET && optname == SO_ERROR && fail_now(VS_GETSOCKOPT, fd)) {
        /* deliver the errno the way an asynchronous connect failure does */
        int v = cur.plan->fail_errno; memcpy(optval, &v, sizeof v); *optlen = sizeof v;
        return 0;
    }
    return real_getsockopt(fd, level, optname, optval, optlen);
}

int poll(struct pollfd *pfds, nfds_t n, int timeout)
{
    REAL(poll);
    if (!cur.active) return real_poll(pfds, n, timeout);
    struct vs_plan *p = cur.plan;
    if (p) p->n_call[VS_POLL]++;
    if (timeout != 0) {
        if (watch_c05 && cur.nonblocking)
            alarm_add("c05-wait", n ? pfds[0].fd : -1, "poll(timeout %d) inside %s on a non-blocking socket", timeout, cur.api);
        if (p) {
            p->n_blocking_polls++;
            /* fail-at for poll counts the waiting polls (those with a time-out other than 0) */
            if (p->fail_at > 0 && p->fail_call == VS_POLL && !p->fail_fired && p->n_blocking_polls == p->fail_at) {
                p->fail_fired = true; p->fail_fd = n ? pfds[0].fd : -1;
                vs_note("INJECT poll#%d errno=%d api=%s ep%d", p->fail_at, p->fail_errno, cur.api, cur.ep);
                errno = p->fail_errno; return -1;
            }
            if (p->eintr_at > 0 && !p->eintr_fired && p->n_blocking_polls == p->eintr_at) {
                p->eintr_fired = true;
                vs_note("INJECT poll#%d EINTR (%s ep%d)", p->eintr_at, cur.api, cur.ep);
                errno = EINTR; return -1;
            }
        }
    }
    return real_poll(pfds, n, timeout);
}

#define WAIT_ALARM(fn) do { if (cur.active && watch_c05 && cur.nonblocking) alarm_add("c05-wait", -1, fn "() inside %s on a non-blocking socket", cur.api); } while (0)

int ppoll(struct pollfd *pfds, nfds_t n, const struct timespec *ts, const sigset_t *ss)
{ REAL(ppoll); if (!ts || ts->tv_sec || ts->tv_nsec) WAIT_ALARM("ppoll"); return real_ppoll(pfds, n, ts, ss); }
int select(int n, fd_set *r, fd_set *w, fd_set *e, struct timeval *tv)
{ REAL(select); if (!tv || tv->tv_sec || tv->tv_usec) WAIT_ALARM("select"); return real_select(n, r, w, e, tv); }
int epoll_wait(int epfd, struct epoll_event *ev, int max, int timeout)
{ REAL(epoll_wait); if (timeout != 0) WAIT_ALARM("epoll_wait"); return real_epoll_wait(epfd, ev, max, timeout); }
int epoll_pwait(int epfd, struct epoll_event *ev, int max, int timeout, const sigset_t *ss)
{ REAL(epoll_pwait); if (timeout != 0) WAIT_ALARM("epoll_pwait"); return real_epoll_pwait(epfd, ev, max, timeout, ss); }
int nanosleep(const struct timespec *rq, struct timespec *rm)
{ REAL(nanosleep); WAIT_ALARM("nanosleep"); return real_nanosleep(rq, rm); }
int usleep(useconds_t us)
{ REAL(usleep); WAIT_ALARM("usleep"); return real_usleep(us); }
unsigned int sleep(unsigned int s)
{ REAL(sleep); WAIT_ALARM("sleep"); return real_sleep(s); }

static const char *fopen_hook_suffix; static void (*fopen_hook_fn)(const char *, void *); static void *fopen_hook_arg;
void vs_set_fopen_hook(const char *suffix, void (*fn)(const char *path, void *arg), void *arg) { fopen_hook_suffix = suffix; fopen_hook_fn = fn; fopen_hook_arg = arg; }

FILE *fopen(const char *path, const char *mode)
{
    REAL(fopen);
    if (fail_now(VS_FOPEN, -1)) { errno = cur.plan->fail_errno; return NULL; }
    if (cur.active && fopen_hook_fn && path && fopen_hook_suffix) {
        size_t lp = strlen(path), ls = strlen(fopen_hook_suffix);
        if (lp >= ls && !strcmp(path + lp - ls, fopen_hook_suffix)) { void (*fn)(const char *, void *) = fopen_hook_fn; fopen_hook_fn = NULL; fn(path, fopen_hook_arg); }
    }
    return real_fopen(path, mode);
}

int unlink(const char *path)
{
    REAL(unlink);
    if (cur.active) { if (cur.plan) cur.plan->n_call[VS_UNLINK]++; vs_note("unlink %s (%s ep%d)", path, cur.api, cur.ep); }
    if (cur.active && watch_c08 && cur.api && !strcmp(cur.api, "xcm_cleanup"))
        alarm_add("c08-cleanup-unlink", -1, "unlink(\"%s\") during xcm_cleanup (non-owner)", path);
    return real_unlink(path);
}

int shutdown(int fd, int how)
{
    REAL(shutdown);
    if (cur.active && watch_c08 && fd >= 0 && fd < MAXFD && fds[fd].owner == VS_OWN_HARNESS)
        alarm_add("c08-foreign-fd", fd, "shutdown() on descriptor %d which XCM did not create (in %s)", fd, cur.api);
    if (cur.active && watch_c08 && cur.api && !strcmp(cur.api, "xcm_cleanup"))
        alarm_add("c08-cleanup-io", fd, "shutdown(%d) during xcm_cleanup (the connection belongs to the owner process)", fd);
    return real_shutdown(fd, how);
}
