/* veng.h - session engine: XCM endpoints wrapped with scopes, event notes,
 * connection-pair establishment on every transport, unique-content message
 * generation, sender ledgers and the delivery / counter oracles. */
#ifndef VENG_H
#define VENG_H

#include "vcommon.h"
#include "vshim.h"
#include "vpki.h"

#include <pthread.h>
#include <xcm.h>
#include <xcm_attr.h>
#include <xcm_attr_map.h>

enum vtp { TP_UX, TP_UXF, TP_TCP, TP_TLS, TP_UTLS_UX, TP_UTLS_TLS, TP_UTLS_FALLBACK, TP_BTCP, TP_BTLS, TP_N };
extern const char *const vtp_name[TP_N];
static inline bool vtp_is_bytestream(enum vtp t) { return t == TP_BTCP || t == TP_BTLS; }
static inline bool vtp_is_tls(enum vtp t) { return t == TP_TLS || t == TP_UTLS_TLS || t == TP_UTLS_FALLBACK || t == TP_BTLS; }
static inline bool vtp_is_tcp_based(enum vtp t) { return t == TP_TCP || t == TP_BTCP || vtp_is_tls(t); }
static inline bool vtp_is_ux(enum vtp t) { return t == TP_UX || t == TP_UXF || t == TP_UTLS_UX; }

/* one attempt to send */
struct vatt { uint64_t id; uint32_t len; uint32_t accepted; int8_t state; int err; };  /* state: 0 pending, 1 ok, -1 failed */
/* one successful receive */
struct vrx { uint32_t len; uint32_t cap; uint64_t hash; unsigned char head[16]; };

struct vcnt { int64_t v[8]; bool ok; };   /* to_app_b, from_app_b, to_lower_b, from_lower_b, then the 4 _msgs */
extern const char *const vcnt_name[8];

struct vep {
    int id;
    struct xcm_socket *s;
    enum vtp tp;
    bool is_server, blocking, bytestream, closed_by_us;
    struct vs_plan plan;
    uint64_t key;              /* content key of this endpoint's outgoing direction */
    /* sender side */
    struct vatt *att; long n_att, cap_att;
    uint64_t next_id;
    long n_ok; uint64_t bytes_ok;        /* committed */
    /* receiver side */
    struct vrx *rx; long n_rx, cap_rx;
    unsigned char *rx_stream; size_t rx_stream_len, rx_stream_cap;   /* byte-stream transports: all bytes received */
    uint64_t rx_bytes;                  /* what xcm_receive really returned */
    int term;                           /* 0 none; 1 saw 0 (closed); 2 saw error */
    int term_errno;
    bool conn_error_seen;               /* any connection-level errno on any call */
    const char *taint;                  /* set when the history contains the trigger of a recorded known finding */
    struct vcnt last_cnt;
    int fd_num;                         /* xcm_fd value at creation (C16) */
    pthread_mutex_t mu;
};

void veng_global_init(void);                  /* PKI, env, directories; call once per process before forking cases */
void veng_ep_init(struct vep *e, int id, enum vtp tp, uint64_t key);
void veng_ep_free(struct vep *e);

/* scoped API wrappers (record an event note before and after) */
int vx_send(struct vep *e, const void *buf, size_t len);
int vx_receive(struct vep *e, void *buf, size_t cap);
int vx_finish(struct vep *e);
int vx_await(struct vep *e, int cond);
int vx_fd(struct vep *e);
int vx_close(struct vep *e);
int vx_set_blocking(struct vep *e, bool b);
int vx_get_int64(struct vep *e, const char *name, int64_t *v);
bool vx_read_counters(struct vep *e, struct vcnt *c);

struct vpair_opts {
    bool plan_during_setup;       /* injection plans already active while establishing */
    int64_t user_timeout;         /* tcp.user_timeout for tcp based transports (0: leave default) */
    const char *extra_attr_name;  /* optional extra string attr for both ends */
    struct xcm_attr_map *conn_attrs, *server_attrs, *accept_attrs;   /* optional, added to the creation maps */
    const char *server_addr;      /* optional: use this address instead of the default loopback one */
    const char *connect_addr;     /* optional: the client connects to this address instead of the server's local address */
    void (*pump)(void *); void *pump_arg;   /* optional: called once per establishment round (e.g. an in-process proxy) */
    int max_rounds;               /* optional: establishment rounds before giving up (default 20000) */
};
/* establish client<->accepted over transport tp in non-blocking mode.  server is kept
 * open in *server.  returns 0, or -1 with a reason in why */
int veng_pair(enum vtp tp, struct vep *client, struct vep *accepted, struct vep *server,
              const struct vpair_opts *o, char *why, size_t why_cap);

/* message content */
void veng_fill(uint64_t key, uint64_t id, unsigned char *buf, size_t len);
uint64_t veng_hash(const unsigned char *buf, size_t len);

/* sender bookkeeping: begin returns the attempt index */
long veng_att_begin(struct vep *e, uint32_t len);
void veng_att_end(struct vep *e, long idx, int rc, int err);   /* rc as returned by xcm_send */
/* receiver bookkeeping */
void veng_rx_add(struct vep *e, const unsigned char *buf, int rc, size_t cap);

/* offline delivery oracle: receiver rxe got its data from sender txe.
 * complete=true demands equality (graceful end), else prefix.  Emits violations under
 * rule names delivery-*; returns number of violations */
int veng_check_delivery(long case_idx, struct vep *txe, struct vep *rxe, bool complete, const char *ctx);

/* kernel-level quiescence of an endpoint's data descriptor */
bool veng_kernel_idle(struct vep *a, struct vep *b, long *inq, long *outq);

bool veng_is_conn_errno(int e);
void veng_ctx(char *buf, size_t cap, const char *fmt, ...) __attribute__((format(printf, 3, 4)));
/* JSON fragment with the shim's recent events, for violation details */
const char *veng_detail(const char *ctx);

extern struct vpki_ent *veng_ca, *veng_leaf;
extern char veng_tls_dir[512];

#endif
