/* c13.c - name resolution and multi-address connect follow the selected algorithm (C13).
 *
 * The stub resolver (vdns) decides what a name resolves to (1..40 IPv4/IPv6
 * loopback addresses in any order), when (synchronously, after n process
 * calls, after t ms, never) and whether at all (failure status).  Each
 * address accepts (an XCM server of the same transport listens), refuses
 * (nobody listens) or does not answer (listener with a full accept queue).
 * The shim's connect() log gives the order of attempts and their times.  An
 * oracle computed from the list and the assignment decides: which connect()
 * calls may be made and in which order, whether the connection must come up
 * and to which address, which errno must surface (through whichever of
 * connect_a/finish/send/receive observes first), the source address, and the
 * time bounds.
 */
#include "vstate.h"

#include <arpa/inet.h>
#include <netinet/in.h>
#include <poll.h>
#include <signal.h>
#include <sys/socket.h>

extern int vs_connect_log_count(void);
extern const char *vs_connect_log_get(int i, int *fd, int *rc, int *err, double *t);
extern void vs_connect_log_reset(void);

static long cur_case;
static char ctx[1400];
static bool have_native6;

enum beh { B_ACCEPT, B_REFUSE, B_NOANSWER, B_UNREACH };      /* B_UNREACH: connect() fails at once with ENETUNREACH (the limited broadcast address) */
static const char beh_ch[] = "ARN";
enum alg { A_SINGLE, A_SEQ, A_HAPPY };
static const char *const alg_name[] = { "single", "sequential", "happy_eyeballs" };
enum dres { D_OK, D_FAIL, D_SILENT };

#define MAXL 40
struct cand { char ip[48]; bool v6; enum beh beh; };
struct ccase {
    enum vtp tp; enum alg alg; enum dres dres; int deliver; int after;
    int n; struct cand c[MAXL];
    bool local_addr; bool local_fixed_port; char local_ip[32];
    double connect_timeout, dns_timeout;
    int first_obs;      /* 0 finish 1 send 2 receive */
    bool server_unresolvable;   /* xcm_server on a name that does not resolve */
    bool shaped;
    bool local_busy;            /* the configured local address and port are taken: every bind fails, nothing may connect from elsewhere */
};

static const char *proto(enum vtp tp) { return tp == TP_TCP ? "tcp" : tp == TP_TLS ? "tls" : tp == TP_BTCP ? "btcp" : tp == TP_BTLS ? "btls" : "utls"; }

static void cv(const char *rule, const struct ccase *c, const char *fmt, ...)
{
    char msg[900]; va_list ap; va_start(ap, fmt); vsnprintf(msg, sizeof msg, fmt, ap); va_end(ap);
    char key[200]; snprintf(key, sizeof key, "connect:%s:%s:%s", rule, alg_name[c->alg], c->local_addr ? "local-addr" : "no-local-addr");
    vviol(cur_case, "connect", key, veng_detail(ctx), "%s %s: %s; %s", proto(c->tp), alg_name[c->alg], msg, ctx);
}

static void gen_case(struct ccase *c, long idx, vrng *r)
{
    memset(c, 0, sizeof *c);
    static const enum vtp tps[] = { TP_TCP, TP_TLS, TP_UTLS_TLS, TP_BTCP, TP_BTLS };
    long gi = idx * va.nworkers + va.worker;
    c->tp = tps[gi % 5];
    c->alg = (enum alg)((gi / 5) % 3);
    unsigned k = vrnd_n(r, 100);
    c->dres = k < 84 ? D_OK : k < 92 ? D_FAIL : D_SILENT;
    if ((gi % 97) == 96) { c->server_unresolvable = true; c->dres = vrnd_p(r, 50) ? D_FAIL : D_SILENT; }
    c->deliver = (int)vrnd_n(r, 3); c->after = c->deliver == VDNS_AFTER_PROCESS ? 1 + (int)vrnd_n(r, 3) : 10 + (int)vrnd_n(r, 60);
    c->connect_timeout = 0.12 + vrnd_n(r, 10) / 100.0;
    c->dns_timeout = 0.15 + vrnd_n(r, 10) / 100.0;
    c->first_obs = (int)vrnd_n(r, 3);
    c->local_addr = vrnd_p(r, 35) && c->tp != TP_UTLS_TLS; c->local_fixed_port = vrnd_p(r, 40);
    snprintf(c->local_ip, sizeof c->local_ip, "127.0.9.%d", 1 + (int)vrnd_n(r, 200));
    /* list */
    unsigned lk = vrnd_n(r, 100);
    c->n = lk < 25 ? 1 : lk < 50 ? 2 : lk < 70 ? 3 : lk < 85 ? 4 + (int)vrnd_n(r, 3) : lk < 93 ? 30 + (int)vrnd_n(r, 5) : 36 + (int)vrnd_n(r, 5);
    int n6 = 0, nna = 0;
    bool used6_1 = false;
    /* XCM makes all IPv6 attempts on one socket.  An AF_INET6 socket that has once been pointed at a v4-mapped address does not
     * reliably reach a native IPv6 address afterwards (kernel), so a list's IPv6 candidates are either all native
     * (::1 and fd00:7e57::N added to lo by the harness) or all v4-mapped. */
    bool native6 = have_native6 && vrnd_p(r, 70);
    for (int i = 0; i < c->n; i++) {
        struct cand *d = &c->c[i];
        bool v6 = vrnd_p(r, 30);
        if (c->local_addr) v6 = false;          /* an IPv4 source address cannot reach IPv6 candidates: keep the list in the family of the source */
        if (v6) {
            d->v6 = true; n6++;
            if (native6 && !used6_1 && vrnd_p(r, 30)) { snprintf(d->ip, sizeof d->ip, "::1"); used6_1 = true; }
            else if (native6) snprintf(d->ip, sizeof d->ip, "fd00:7e57::%x", 0x20 + i);
            else snprintf(d->ip, sizeof d->ip, "::ffff:127.0.%d.%d", 20 + i, 1 + (int)vrnd_n(r, 200));
        } else snprintf(d->ip, sizeof d->ip, "127.0.%d.%d", 20 + i, 1 + (int)vrnd_n(r, 200));
        unsigned b = vrnd_n(r, 100);
        d->beh = c->n > 8 ? (b < 92 ? B_REFUSE : b < 97 ? B_ACCEPT : B_NOANSWER) : (b < 40 ? B_ACCEPT : b < 75 ? B_REFUSE : B_NOANSWER);
        if (d->beh == B_NOANSWER && (nna >= 3 || !strcmp(d->ip, "::1"))) d->beh = B_REFUSE;
        if (d->beh == B_NOANSWER) nna++;
    }
    if (c->n > 8 && vrnd_p(r, 60)) c->c[vrnd_n(r, (uint32_t)c->n)].beh = B_ACCEPT;     /* possibly beyond the 32nd entry */
    /* an address to which connect() fails synchronously; sometimes as the last candidate right after one that does not answer, so that the
     * attempt that times out is followed, within the same processing step, by the attempt that decides the errno */
    if (!c->local_addr && c->n >= 2 && c->n <= 8 && vrnd_p(r, 12)) {
        int u = c->n - 1; struct cand *d = &c->c[u];
        d->v6 = false; snprintf(d->ip, sizeof d->ip, "255.255.255.255"); d->beh = B_UNREACH;
        if (vrnd_p(r, 60) && !c->c[u - 1].v6 && strcmp(c->c[u - 1].ip, "::1")) { bool acc_before = false; for (int i = 0; i < u; i++) if (c->c[i].beh == B_ACCEPT) acc_before = true; if (!acc_before && nna < 3) c->c[u - 1].beh = B_NOANSWER; }
    }
    /* directed shapes: one family fails at once while the other is still waiting for an answer and succeeds (or fails) late */
    if (!c->local_addr && have_native6 && vrnd_p(r, 18)) {
        static const char *const shapes[] = { "6N 4R 6A", "4N 6R 4A", "6N 4R 4R 6N 6A", "6N 4R 6R", "4N 6R 4R", "6N 4N 6A 4A", "6R 4N 6R 4A", "6N 4A", "6A 4N" };
        const char *sh = shapes[vrnd_n(r, 9)];
        c->n = 0;
        for (const char *q = sh; *q; q++) {
            if (*q == ' ') continue;
            struct cand *d = &c->c[c->n]; memset(d, 0, sizeof *d);
            d->v6 = *q == '6'; q++;
            d->beh = *q == 'A' ? B_ACCEPT : *q == 'R' ? B_REFUSE : B_NOANSWER;
            if (d->v6) snprintf(d->ip, sizeof d->ip, "fd00:7e57::%x", 0x20 + c->n); else snprintf(d->ip, sizeof d->ip, "127.0.%d.%d", 20 + c->n, 1 + (int)vrnd_n(r, 200));
            c->n++;
        }
        c->shaped = true;
    }
}

static void case_json(const struct ccase *c, long idx, uint64_t ss)
{
    char lst[900]; size_t o = 0;
    for (int i = 0; i < c->n && o + 60 < sizeof lst; i++) o += (size_t)snprintf(lst + o, sizeof lst - o, "%s%s=%c", i ? " " : "", c->c[i].ip, beh_ch[c->c[i].beh]);
    snprintf(ctx, sizeof ctx, "{\"case\":%ld,\"sub_seed\":\"%" PRIu64 "\",\"transport\":\"%s\",\"algorithm\":\"%s\",\"resolver\":\"%s\",\"deliver\":%d,\"after\":%d,\"answers\":%d,\"list\":\"%s\",\"local_addr\":\"%s%s\",\"tcp_connect_timeout\":%.2f,\"dns_timeout\":%.2f,\"first_observer\":%d,\"server_on_unresolvable_name\":%d}",
             idx, ss, proto(c->tp), alg_name[c->alg], c->dres == D_OK ? "answers" : c->dres == D_FAIL ? "fails" : "silent", c->deliver, c->after, c->n, lst, c->local_addr ? c->local_ip : "", c->local_addr && c->local_fixed_port ? ":fixed-port" : "", c->connect_timeout, c->dns_timeout, c->first_obs, c->server_unresolvable);
}

/* textual form as the shim's connect log prints it */
static void cand_logstr(const struct cand *d, int port, char *out, size_t cap)
{
    if (d->v6) { struct in6_addr a; inet_pton(AF_INET6, d->ip, &a); char t[64]; inet_ntop(AF_INET6, &a, t, sizeof t); snprintf(out, cap, "[%s]:%d", t, port); }
    else snprintf(out, cap, "%s:%d", d->ip, port);
}

/* the IPv4 address a listener for this candidate binds to */
static void cand_listen_ip(const struct cand *d, char *out, size_t cap)
{
    if (d->v6 && !strncmp(d->ip, "::ffff:", 7)) snprintf(out, cap, "%s", d->ip + 7); else snprintf(out, cap, "%s", d->ip);
}

#define SCX(nm, epn, pl) struct vs_scope _sc = { .active = true, .nonblocking = true, .api = nm, .ep = epn, .plan = pl }; vs_enter(&_sc)

static void one_case(long idx, void *arg)
{
    (void)arg;
    cur_case = idx;
    uint64_t ss = vsub_seed(va.seed, (uint64_t)va.worker, (uint64_t)idx);
    vrng r = { ss };
    struct ccase c; gen_case(&c, idx, &r);
    case_json(&c, idx, ss);
    VLOG("case %s", ctx);
    struct vs_plan plan; vs_plan_init(&plan, ss); plan.quiet = true;
    vdns_reset(); vdns_enable(true);
    const char *pr = proto(c.tp);

    if (c.server_unresolvable) {
        struct vdns_plan dp; memset(&dp, 0, sizeof dp); snprintf(dp.name, sizeof dp.name, "nosuch.verif.test");
        if (c.dres == D_FAIL) { dp.status = 4 /* ARES_ENOTFOUND */; dp.deliver = (enum vdns_deliver)c.deliver; dp.after = c.after; } else dp.deliver = VDNS_NEVER;
        vdns_set(&dp);
        char addr[96]; snprintf(addr, sizeof addr, "%s:nosuch.verif.test:0", pr == proto(TP_UTLS_TLS) ? "utls" : pr);
        double t0 = vnow();
        struct xcm_attr_map *um = xcm_attr_map_create(); if (vtp_is_bytestream(c.tp)) xcm_attr_map_add_str(um, "xcm.service", "bytestream");
        SCX("xcm_server_a", 2, &plan); struct xcm_socket *s = xcm_server_a(addr, um); int se = errno; vs_leave();
        xcm_attr_map_destroy(um);
        double dt = vnow() - t0;
        vobs("server_unresolvable_cases", 1);
        if (s) { cv("server-on-unresolvable-name-succeeds", &c, "xcm_server(\"%s\") returned a socket", addr); xcm_close(s); }
        else if (se != ENOENT) cv("server-unresolvable-errno", &c, "xcm_server(\"%s\") failed with errno %d (%s), expected ENOENT", addr, se, strerror(se));
        else if (dt > 14.0) cv("server-unresolvable-late", &c, "xcm_server(\"%s\") took %.1f s to fail", addr, dt);
        vsig_str(c.dres == D_FAIL ? "server-unresolvable|fail" : "server-unresolvable|silent");
        vdns_enable(false); vcase_done(true); return;
    }

    /* topology */
    const char *ips[MAXL + 1]; char lips[MAXL][48];
    for (int i = 0; i < c.n; i++) { cand_listen_ip(&c.c[i], lips[i], sizeof lips[i]); ips[i] = lips[i]; }
    int port = vnet_pick_port(ips, c.n);
    if (port < 0) { vobs("setup_failed", 1); vdns_enable(false); vcase_done(false); return; }
    struct xcm_socket *srv[MAXL] = { 0 }; struct xcm_socket *acc[MAXL] = { 0 }; struct vnet_noanswer na[MAXL]; bool have_na[MAXL] = { 0 }; int guard[MAXL]; for (int i = 0; i < MAXL; i++) guard[i] = -1;
    struct xcm_attr_map *sm = xcm_attr_map_create(); xcm_attr_map_add_bool(sm, "xcm.blocking", false);
    if (vtp_is_bytestream(c.tp)) xcm_attr_map_add_str(sm, "xcm.service", "bytestream");
    bool setup_ok = true;
    for (int i = 0; i < c.n; i++) {
        bool dup = false; for (int j = 0; j < i; j++) if (!strcmp(lips[j], lips[i])) dup = true;
        if (dup) { c.c[i].beh = B_REFUSE; for (int j = 0; j < i; j++) if (!strcmp(lips[j], lips[i])) c.c[i].beh = c.c[j].beh; continue; }
        if (c.c[i].beh == B_ACCEPT) {
            char a[96]; if (strchr(lips[i], ':')) snprintf(a, sizeof a, "%s:[%s]:%d", c.tp == TP_UTLS_TLS ? "tls" : pr, lips[i], port); else snprintf(a, sizeof a, "%s:%s:%d", c.tp == TP_UTLS_TLS ? "tls" : pr, lips[i], port);
            SCX("xcm_server_a", 100 + i, NULL); srv[i] = xcm_server_a(a, sm); vs_leave();
            if (!srv[i]) setup_ok = false;
        } else if (c.c[i].beh == B_NOANSWER) { if (vnet_noanswer_open(&na[i], lips[i], port) == 0) have_na[i] = true; else setup_ok = false; }
        /* "refuses" must stay true for the whole case, whatever other workers (which share the loopback addresses) and the kernel's choice of source ports do */
        else if (c.c[i].beh == B_REFUSE) { guard[i] = vnet_guard(lips[i], port); if (guard[i] < 0) { setup_ok = false; vobs("refusing_address_taken_by_someone_else", 1); } }
    }
    xcm_attr_map_destroy(sm);
    case_json(&c, idx, ss);
    struct xcm_socket *cl = NULL; int busy_fd = -1;
    if (!setup_ok) { vobs("setup_failed", 1); goto out; }

    /* resolver plan */
    {
        struct vdns_plan dp; memset(&dp, 0, sizeof dp); snprintf(dp.name, sizeof dp.name, "m.verif.test");
        if (c.dres == D_FAIL) { static const int st[] = { 4 /*ENOTFOUND*/, 1 /*ENODATA*/, 11 /*ECONNREFUSED*/, 12 /*ETIMEOUT*/, 2 /*EFORMERR*/ }; dp.status = st[vrnd_n(&r, 5)]; dp.deliver = (enum vdns_deliver)c.deliver; dp.after = c.after; }
        else if (c.dres == D_SILENT) dp.deliver = VDNS_NEVER;
        else {
            dp.deliver = (enum vdns_deliver)c.deliver; dp.after = c.after;
            for (int i = 0; i < c.n; i++) { if (c.c[i].v6) vdns_addr6(&dp.addrs[dp.n++], c.c[i].ip); else vdns_addr4(&dp.addrs[dp.n++], c.c[i].ip); }
        }
        vdns_set(&dp);
    }
    /* oracle */
    int neff = c.n > 32 ? 32 : c.n;
    if (c.alg == A_SINGLE) neff = 1;
    int first_acc = -1, first_acc4 = -1, first_acc6 = -1; bool any6 = false, any4 = false;
    for (int i = 0; i < neff; i++) {
        if (c.c[i].v6) any6 = true; else any4 = true;
        if (c.c[i].beh == B_ACCEPT) { if (first_acc < 0) first_acc = i; if (c.c[i].v6 && first_acc6 < 0) first_acc6 = i; if (!c.c[i].v6 && first_acc4 < 0) first_acc4 = i; }
    }
    bool expect_up = c.dres == D_OK && first_acc >= 0;
    int nna_before = 0;       /* unanswered attempts that must time out before the outcome */
    for (int i = 0; i < neff && (first_acc < 0 || i < first_acc); i++) if (c.c[i].beh == B_NOANSWER) nna_before++;

    struct xcm_attr_map *cm = xcm_attr_map_create(); xcm_attr_map_add_bool(cm, "xcm.blocking", false);
    if (vtp_is_bytestream(c.tp)) xcm_attr_map_add_str(cm, "xcm.service", "bytestream");
    xcm_attr_map_add_str(cm, "dns.algorithm", alg_name[c.alg]);
    xcm_attr_map_add_double(cm, "tcp.connect_timeout", c.connect_timeout);
    xcm_attr_map_add_double(cm, "dns.timeout", c.dns_timeout);
    int lport = 0;
    if (c.local_addr && c.local_fixed_port) { const char *lips1[1] = { c.local_ip }; lport = vnet_pick_port(lips1, 1); if (lport < 0) lport = 0; }
    if (c.local_addr && lport > 0 && c.dres == D_OK && vrnd_p(&r, 30)) { busy_fd = vnet_listen(c.local_ip, lport, 1); if (busy_fd >= 0) { c.local_busy = true; expect_up = false; } }
    if (c.local_addr) { char la[96]; snprintf(la, sizeof la, "%s:%s:%d", c.tp == TP_UTLS_TLS ? "tls" : pr, c.local_ip, lport); xcm_attr_map_add_str(cm, "xcm.local_addr", la); }
    char addr[96]; snprintf(addr, sizeof addr, "%s:m.verif.test:%d", pr, port);     /* utls: the UX attempt is refused, the TLS half resolves the name */
    vs_connect_log_reset();
    double t0 = vnow(); double late_look = 0;
    int outcome_errno = 0; bool up = false; const char *observer = "xcm_connect_a";
    { SCX("xcm_connect_a", 0, &plan); cl = xcm_connect_a(addr, cm); int se = errno; vs_leave(); if (!cl) outcome_errno = se; }
    xcm_attr_map_destroy(cm);
    /* an application busy elsewhere: the resolver's answer is there in time (it arrives some tens of milliseconds after the query and is handed over at the next processing step), but the
     * socket is first looked at after dns.timeout has run out.  The answer counts; ENOENT is for resolution that failed or took too long */
    if (cl && c.dres == D_OK && c.deliver == VDNS_AFTER_MS && c.after / 1000.0 < c.dns_timeout - 0.04 && vrnd_p(&r, 25)) { struct pollfd none; vs_real_poll(&none, 0, (int)(c.dns_timeout * 1000) + 120); vobs("first_look_after_dns_timeout", 1); late_look = vnow() - t0; }
    unsigned char buf[256];
    double t_out = 0;
    /* the upper time bounds are judged on the time the driving loop was actually turning: a gap of more than 20 ms between two turns is this
     * process not being scheduled (loaded machine), not the library taking its time, and counts as 20 ms */
    double t_eff = late_look, t_prev = vnow(), max_gap = 0;
    for (int i = 0; cl && !up && !outcome_errno && i < 40000; i++) {
        { double tn = vnow(), dt = tn - t_prev; t_eff += dt > 0.02 ? 0.02 : dt; t_prev = tn; if (dt > max_gap) max_gap = dt; }
        for (int j = 0; j < c.n; j++) {
            if (srv[j] && !acc[j]) { SCX("xcm_accept", 200 + j, NULL); acc[j] = xcm_accept(srv[j]); vs_leave(); }
            if (acc[j]) { SCX("xcm_finish", 200 + j, NULL); xcm_finish(acc[j]); vs_leave(); }
        }
        int rc, se; int op = i < 3 ? c.first_obs : (int)vrnd_n(&r, 3);
        if (op == 1) { memset(buf, 9, 32); SCX("xcm_send", 0, &plan); rc = xcm_send(cl, buf, 32); se = errno; vs_leave(); observer = "xcm_send"; if (rc >= 0) { SCX("xcm_finish", 0, &plan); int f = xcm_finish(cl); int fe = errno; vs_leave(); if (f == 0) up = true; else if (fe != EAGAIN) { outcome_errno = fe; observer = "xcm_finish"; } continue; } }
        else if (op == 2) { SCX("xcm_receive", 0, &plan); rc = xcm_receive(cl, buf, sizeof buf); se = errno; vs_leave(); observer = "xcm_receive"; if (rc == 0) { outcome_errno = -1; break; } }
        else { SCX("xcm_finish", 0, &plan); rc = xcm_finish(cl); se = errno; vs_leave(); observer = "xcm_finish"; if (rc == 0) up = true; }
        if (rc < 0 && se != EAGAIN) outcome_errno = se;
        if (vnow() - t0 > 20) break;
        struct pollfd none; vs_real_poll(&none, 0, 1);
    }
    t_out = vnow() - t0;
    if (t_out - t_eff > 0.25) vobs("cases_with_scheduling_stalls_discounted", 1);
    t_out = t_eff;
    /* A turn of the loop takes a millisecond or two.  One that took half of the shortest timer in play (tcp.connect_timeout >= 0.12 s) means this
     * process was not scheduled for that long: a timer of the library may have run out before the library got the chance to notice the answer that was
     * already there, and it is entitled to act on the timer.  What the case would show then is the machine's load: not judged, counted. */
    { double tn = vnow(); if (tn - t_prev > max_gap) max_gap = tn - t_prev; }
    if (max_gap > 0.06) { vobs("cases_not_judged_scheduling_stall", 1); vsig_str("stalled"); goto out; }
    vobs("connect_scenarios", 1); if (c.shaped) vobs("directed_two_family_shapes", 1);

    /* ---- judge ---- */
    int ncl = vs_connect_log_count();
    char attempts[40][64]; double att_t[40]; int natt = 0;
    for (int i = 0; i < ncl && natt < 40; i++) { int fd, rc, err; double t; const char *a = vs_connect_log_get(i, &fd, &rc, &err, &t); if (a[0] == '?' || !strcmp(a, "unix")) continue;   /* aborts (AF_UNSPEC) and utls' UX attempt */ snprintf(attempts[natt], 64, "%s", a); att_t[natt] = t - t0; natt++; }
    if (natt >= 2 || c.dres != D_OK) vobs("multi_attempt_or_resolver_fault_cases", 1);
    if (!up && !outcome_errno) { cv("no-outcome", &c, "after %.1f s the connection is neither established nor failed (last observer %s); %d connect() calls", t_out, observer, natt); goto out; }
    if (c.dres != D_OK) {
        if (up) cv("connected-without-resolution", &c, "the resolver %s yet the connection came up", c.dres == D_FAIL ? "failed" : "never answered");
        else if (outcome_errno != ENOENT) cv("resolution-failure-errno", &c, "resolver %s: %s reported errno %d (%s), expected ENOENT", c.dres == D_FAIL ? "failed" : "silent beyond dns.timeout", observer, outcome_errno, outcome_errno > 0 ? strerror(outcome_errno) : "close");
        else if (natt > 0) cv("connect-without-address", &c, "%d connect() calls although the resolver produced no address", natt);
        else if (c.dres == D_SILENT && t_out > c.dns_timeout * 1.5 + 1.0) cv("dns-timeout-late", &c, "dns.timeout %.2f s, failure surfaced after %.2f s", c.dns_timeout, t_out);
        else vobs("resolver_fault_cases_ok", 1);
        vsig_str(c.dres == D_FAIL ? "resolver-fail" : "resolver-silent");
        goto out;
    }
    /* attempts: only addresses of the (effective) list, never beyond the 32nd entry / the first for single */
    for (int a = 0; a < natt; a++) {
        bool found = false; for (int i = 0; i < neff; i++) { char ls[64]; cand_logstr(&c.c[i], port, ls, sizeof ls); if (!strcmp(ls, attempts[a])) found = true; }
        if (!found) { cv("attempt-outside-list", &c, "connect() to %s, which is not among the %d address(es) the algorithm may use", attempts[a], neff); goto out; }
    }
    if (c.local_busy) {
        vobs("local_address_busy_cases", 1);
        if (up) { const char *la; { SCX("xcm_local_addr", 0, &plan); la = xcm_local_addr(cl); vs_leave(); } cv("wrong-source-address", &c, "xcm.local_addr %s:%d is taken (every bind fails with EADDRINUSE), yet the connection came up, from %s", c.local_ip, lport, la ? la : "(null)"); }
        else if (natt > 0) cv("connect-from-unbound-socket", &c, "xcm.local_addr %s:%d is taken, yet connect() was called %d time(s) (first to %s)", c.local_ip, lport, natt, attempts[0]);
        else if (outcome_errno != EADDRINUSE) cv("failure-errno", &c, "xcm.local_addr is taken; %s reported errno %d (%s), expected EADDRINUSE", observer, outcome_errno, outcome_errno > 0 ? strerror(outcome_errno) : "close");
        vsig_str("local-busy");
        goto out;
    }
    if (c.alg != A_HAPPY) {
        /* strictly in list order, each once, stopping at the first that accepts */
        int want_n = first_acc >= 0 ? first_acc + 1 : neff;
        /* candidates whose family has no usable socket or whose bind fails are skipped by the implementation without connect(): not with IPv4-only or matching lists as generated here */
        bool order_ok = natt == want_n;
        for (int a = 0; order_ok && a < natt; a++) { char ls[64]; cand_logstr(&c.c[a], port, ls, sizeof ls); if (strcmp(ls, attempts[a])) order_ok = false; }
        if (!order_ok) {
            char got[700]; size_t o = 0; for (int a = 0; a < natt && o + 70 < sizeof got; a++) o += (size_t)snprintf(got + o, sizeof got - o, "%s ", attempts[a]);
            cv("attempt-order", &c, "expected connect() to exactly the first %d list entries in order, observed %d: %s", want_n, natt, got); goto out;
        }
    } else {
        /* per family in list order; IPv4 not before 200 ms when IPv6 candidates exist */
        int last4 = -1, last6 = -1; double first4_t = -1;
        for (int a = 0; a < natt; a++) {
            int which = -1; for (int i = 0; i < neff; i++) { char ls[64]; cand_logstr(&c.c[i], port, ls, sizeof ls); if (!strcmp(ls, attempts[a])) { which = i; if ((c.c[i].v6 ? last6 : last4) < i) break; } }
            if (c.c[which].v6) { if (which <= last6) { cv("attempt-order", &c, "IPv6 track went back to list entry %d after %d", which, last6); goto out; } last6 = which; }
            else { if (which <= last4) { cv("attempt-order", &c, "IPv4 track went back to list entry %d after %d", which, last4); goto out; } last4 = which; if (first4_t < 0) first4_t = att_t[a]; }
        }
        if (any6 && any4 && first4_t >= 0 && first4_t < 0.19) { cv("happy-eyeballs-no-ipv6-head-start", &c, "the first IPv4 attempt was made %.3f s after xcm_connect_a although IPv6 candidates exist (200 ms head start)", first4_t); goto out; }
        if (any6 && any4 && first4_t >= 0) vobs("happy_eyeballs_ipv4_delay_checked", 1);
    }
    if (expect_up && !up) {
        cv("not-connected", &c, "list entry %d (%s) accepts connections but %s reported errno %d (%s) after %d attempt(s)", first_acc, c.c[first_acc].ip, observer, outcome_errno, outcome_errno > 0 ? strerror(outcome_errno) : "close", natt); goto out;
    }
    if (!expect_up && up) { cv("connected-unexpectedly", &c, "no usable address accepts, yet the connection came up"); goto out; }
    if (up) {
        const char *ra; { SCX("xcm_remote_addr", 0, &plan); ra = xcm_remote_addr(cl); vs_leave(); }
        char want[3][96]; int nw = 0;
        int cands[2] = { c.alg == A_HAPPY ? first_acc6 : first_acc, c.alg == A_HAPPY ? first_acc4 : -1 };
        for (int k = 0; k < 2; k++) if (cands[k] >= 0) { if (c.c[cands[k]].v6) { struct in6_addr a6; inet_pton(AF_INET6, c.c[cands[k]].ip, &a6); char t[64]; inet_ntop(AF_INET6, &a6, t, sizeof t); snprintf(want[nw++], 96, "%s:[%s]:%d", c.tp == TP_UTLS_TLS ? "tls" : pr, t, port); } else snprintf(want[nw++], 96, "%s:%s:%d", c.tp == TP_UTLS_TLS ? "tls" : pr, c.c[cands[k]].ip, port); }
        bool okpeer = false; for (int k = 0; k < nw; k++) if (ra && strchr(ra, ':') && !strcmp(strchr(ra, ':'), strchr(want[k], ':'))) okpeer = true;    /* compared from the host on */
        if (!okpeer) { cv("wrong-peer", &c, "connected to %s, expected %s%s%s", ra ? ra : "(null)", want[0], nw > 1 ? " or " : "", nw > 1 ? want[1] : ""); goto out; }
        if (c.local_addr) {
            const char *la; { SCX("xcm_local_addr", 0, &plan); la = xcm_local_addr(cl); vs_leave(); }
            char pfx[96]; snprintf(pfx, sizeof pfx, "%s:%s:", c.tp == TP_UTLS_TLS ? "tls" : pr, c.local_ip);
            if (!la || !strchr(la, ':') || strncmp(strchr(la, ':'), strchr(pfx, ':'), strlen(strchr(pfx, ':')))) { cv("wrong-source-address", &c, "xcm.local_addr was %s but the connection's local address is %s", c.local_ip, la ? la : "(null)"); goto out; }
            vobs("local_addr_verified", 1);
        }
        double bound = (nna_before * c.connect_timeout + (c.deliver == VDNS_AFTER_MS ? c.after / 1000.0 : 0) + (any6 && any4 && c.alg == A_HAPPY ? 0.2 : 0)) * 1.5 + 1.0 + late_look;
        if (t_out > bound) { cv("connect-late", &c, "established after %.2f s; %d unanswered attempt(s) x tcp.connect_timeout %.2f s allow %.2f s", t_out, nna_before, c.connect_timeout, bound); goto out; }
        vobs("connections_established", 1);
    } else {
        /* errno of the last failed attempt (for happy eyeballs: of the last attempt of either track) */
        int okerr[2] = { 0, 0 }; int ne = 0;
        int l4 = -1, l6 = -1; for (int i = 0; i < neff; i++) { if (c.c[i].v6) l6 = i; else l4 = i; }
        int lasts[2] = { c.alg == A_HAPPY ? l4 : neff - 1, c.alg == A_HAPPY ? l6 : -1 };
        for (int k = 0; k < 2; k++) if (lasts[k] >= 0) okerr[ne++] = c.c[lasts[k]].beh == B_REFUSE ? ECONNREFUSED : c.c[lasts[k]].beh == B_UNREACH ? ENETUNREACH : ETIMEDOUT;
        bool okE = false; for (int k = 0; k < ne; k++) if (outcome_errno == okerr[k]) okE = true;
        if (!okE) { cv("failure-errno", &c, "%s reported errno %d (%s); the last failed attempt %s", observer, outcome_errno, outcome_errno > 0 ? strerror(outcome_errno) : "close", okerr[0] == ECONNREFUSED ? "was refused (ECONNREFUSED)" : okerr[0] == ENETUNREACH ? "failed at once (ENETUNREACH)" : "timed out (ETIMEDOUT)"); goto out; }
        int nna_all = 0; for (int i = 0; i < neff; i++) if (c.c[i].beh == B_NOANSWER) nna_all++;
        double bound = (nna_all * c.connect_timeout + (c.deliver == VDNS_AFTER_MS ? c.after / 1000.0 : 0) + 0.2) * 1.5 + 1.0 + late_look;
        if (t_out > bound) { cv("failure-late", &c, "failure surfaced after %.2f s; bound %.2f s", t_out, bound); goto out; }
        /* sticky */
        for (int k = 0; cl && k < 3; k++) { SCX("xcm_finish", 0, &plan); int f = xcm_finish(cl); int fe = errno; vs_leave(); if (f == 0 || fe != outcome_errno) { cv("failure-not-sticky", &c, "xcm_finish returned %d errno %d after the establishment had failed with %d", f, fe, outcome_errno); goto out; } }
        vobs("connect_failures_verified", 1);
    }
    {
        char sg[200]; snprintf(sg, sizeof sg, "%s|%s|n%d|att%d|%s|%s|la%d|%s", pr, alg_name[c.alg], c.n > 8 ? 9 : c.n, natt > 6 ? 7 : natt, up ? "up" : "down", observer, c.local_addr, any6 ? (any4 ? "mixed" : "v6") : "v4");
        vsig_str(sg);
    }
out:
    if (busy_fd >= 0) close(busy_fd);
    if (cl) { SCX("xcm_close", 0, &plan); xcm_close(cl); vs_leave(); }
    for (int i = 0; i < c.n; i++) { if (acc[i]) xcm_close(acc[i]); if (srv[i]) xcm_close(srv[i]); if (have_na[i]) vnet_noanswer_close(&na[i]); if (guard[i] >= 0) close(guard[i]); }
    vdns_enable(false);
    char cls[100]; snprintf(cls, sizeof cls, "%s/%s", pr, alg_name[c.alg]); vclass(cls);
    if (idx < 2) vsample(ctx);
    vcase_done(true);
}

int main(int argc, char **argv)
{
    vparse_args(argc, argv);
    signal(SIGPIPE, SIG_IGN);
    veng_global_init();
    /* native IPv6 candidates on the loopback interface (idempotent; left in place, other workers use them too) */
    if (system("for i in $(seq 32 80); do ip -6 addr add fd00:7e57::$(printf %x $i)/128 dev lo nodad 2>/dev/null; done; true") == 0) {
        int fd = socket(AF_INET6, SOCK_STREAM, 0);
        struct sockaddr_in6 a = { .sin6_family = AF_INET6 }; inet_pton(AF_INET6, "fd00:7e57::20", &a.sin6_addr);
        if (fd >= 0 && bind(fd, (struct sockaddr *)&a, sizeof a) == 0) have_native6 = true;
        if (fd >= 0) close(fd);
    }
    vobs("workers_with_native_ipv6", have_native6);
    for (long i = 0; i < va.cases; i++) {
        if (va.only >= 0 && i != va.only) continue;
        if (va.only >= 0) { one_case(i, NULL); continue; }
        vfork_case(i, one_case, NULL, 40, "C13");
        if (vstop_early()) break;
    }
    vsummary(true);
    return 0;
}
