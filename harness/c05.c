/* c05.c - non-blocking sockets never put the calling thread to sleep (C05).
 *
 * Sockets of every transport are created non-blocking and held in every
 * phase (vstate: resolving with a silent resolver, TCP connecting to an
 * address that does not answer, TLS handshaking with a silent peer,
 * back-pressured, established, peer closed, failed) while random sequences of
 * every public call are made on them.  The interposition shim watches the
 * waiting primitives themselves while such a call is in progress: any
 * poll/ppoll/select/epoll_wait/epoll_pwait with a non-zero timeout, any
 * sleep, and any connect/accept/send/recv on a descriptor lacking O_NONBLOCK
 * (without MSG_DONTWAIT) is a violation whether or not it happened to return
 * at once.
 */
#include "vstate.h"
#include "vctl.h"

#include <arpa/inet.h>
#include <netinet/in.h>
#include <sys/socket.h>
#include <poll.h>
#include <signal.h>
#include <sys/stat.h>

static long cur_case;
static char ctx[600];
static const char *cur_tp, *cur_st;
static long n_alarm_checks;

static void take_alarms(const char *api)
{
    struct vs_alarm al[16];
    int n = vs_alarms_take(al, 16);
    n_alarm_checks++;
    for (int i = 0; i < n; i++) {
        char key[200]; snprintf(key, sizeof key, "nowait:%s:%s:%s:%s", al[i].rule, al[i].api ? al[i].api : api, cur_tp, cur_st);
        vviol(cur_case, "nowait", key, veng_detail(ctx), "%s (fd %d, endpoint %d, transport %s, phase %s); %s", al[i].what, al[i].fd, al[i].ep, cur_tp, cur_st, ctx);
    }
}

struct names { char n[96][200]; int cnt; };
static void name_cb(const char *name, enum xcm_attr_type type, const void *value, size_t len, void *data)
{ struct names *ns = data; (void)type; (void)value; (void)len; if (ns->cnt < 96) snprintf(ns->n[ns->cnt++], 200, "%s", name); }

#define SC(e, nm) struct vs_scope _sc = { .active = true, .nonblocking = true, .api = nm, .ep = (e)->id, .plan = &(e)->plan }; vs_enter(&_sc)

static void triple(const char *api) { char t[160]; snprintf(t, sizeof t, "%s|%s|%s", cur_tp, cur_st, api); vsig_str(t); vobs("api_calls_watched", 1); }

static void exercise(struct vep *e, vrng *r, int nops, bool is_server, struct vstate *v)
{
    static unsigned char buf[70000];
    struct names ns; ns.cnt = 0;
    { SC(e, "xcm_attr_get_all"); xcm_attr_get_all(e->s, name_cb, &ns); vs_leave(); take_alarms("xcm_attr_get_all"); triple("xcm_attr_get_all"); }
    for (int i = 0; i < nops && e->s; i++) {
        unsigned a = vrnd_n(r, 100);
        if (is_server) {
            if (a < 40) { SC(e, "xcm_accept"); struct xcm_socket *c = xcm_accept(e->s); int se = errno; vs_leave(); take_alarms("xcm_accept"); triple("xcm_accept");
                if (c) { struct vep tmp; veng_ep_init(&tmp, 5, e->tp, 1); tmp.s = c; vx_close(&tmp); take_alarms("xcm_close"); } (void)se; }
            else if (a < 55) { vx_finish(e); take_alarms("xcm_finish"); triple("xcm_finish"); }
            else if (a < 70) { vx_await(e, vrnd_p(r, 50) ? XCM_SO_ACCEPTABLE : 0); take_alarms("xcm_await"); triple("xcm_await"); }
            else if (a < 80) { vx_fd(e); take_alarms("xcm_fd"); triple("xcm_fd"); }
            else if (ns.cnt) { const char *nm = ns.n[vrnd_n(r, (uint32_t)ns.cnt)]; enum xcm_attr_type t; SC(e, "xcm_attr_get"); xcm_attr_get(e->s, nm, &t, buf, 4096); vs_leave(); take_alarms("xcm_attr_get"); triple("xcm_attr_get"); }
            continue;
        }
        if (a < 22) { size_t len = vrnd_p(r, 50) ? 1 + vrnd_n(r, 200) : 1 + vrnd_n(r, 65535); if (e->bytestream && vrnd_p(r, 20)) len = 70000; memset(buf, 0x33, len > sizeof buf ? sizeof buf : len);
            vx_send(e, buf, len > sizeof buf ? sizeof buf : len); take_alarms("xcm_send"); triple("xcm_send"); }
        else if (a < 44) { vx_receive(e, buf, 1 + vrnd_n(r, 65535)); take_alarms("xcm_receive"); triple("xcm_receive"); }
        else if (a < 58) { vx_finish(e); take_alarms("xcm_finish"); triple("xcm_finish"); }
        else if (a < 70) { vx_await(e, (int)vrnd_n(r, 4)); take_alarms("xcm_await"); triple("xcm_await"); }
        else if (a < 75) { vx_fd(e); take_alarms("xcm_fd"); triple("xcm_fd"); }
        else if (a < 88 && ns.cnt) { const char *nm = ns.n[vrnd_n(r, (uint32_t)ns.cnt)]; enum xcm_attr_type t; SC(e, "xcm_attr_get"); xcm_attr_get(e->s, nm, &t, buf, 4096); vs_leave(); take_alarms("xcm_attr_get"); triple("xcm_attr_get"); }
        else if (a < 94) {
            SC(e, "xcm_attr_set");
            switch (vrnd_n(r, 6)) {
            case 0: xcm_attr_set_bool(e->s, "xcm.blocking", false); break;
            case 1: xcm_attr_set_bool(e->s, "tcp.keepalive", vrnd_p(r, 50)); break;
            case 2: xcm_attr_set_int64(e->s, "tcp.keepalive_time", 1 + vrnd_n(r, 100)); break;
            case 3: xcm_attr_set_int64(e->s, "tcp.user_timeout", 30 + vrnd_n(r, 100)); break;
            case 4: xcm_attr_set_double(e->s, "tcp.connect_timeout", 50.0 + vrnd_n(r, 10)); break;
            default: xcm_attr_set_str(e->s, "dns.algorithm", "sequential"); break;
            }
            vs_leave(); take_alarms("xcm_attr_set"); triple("xcm_attr_set");
        }
        else if (a < 97) { SC(e, "xcm_remote_addr"); xcm_remote_addr(e->s); xcm_local_addr(e->s); xcm_is_blocking(e->s); vs_leave(); take_alarms("xcm_remote_addr"); triple("xcm_remote_addr"); }
        else { SC(e, "xcm_set_blocking"); xcm_set_blocking(e->s, false); vs_leave(); take_alarms("xcm_set_blocking(false)"); triple("xcm_set_blocking(false)"); }
    }
    (void)v;
}

struct ccase { enum vtp tp; enum vst st; int flavour; };
static int pairs[96][2]; static int npairs;
static void gen_case(struct ccase *c, long idx)
{
    static const enum vtp tps[] = { TP_UX, TP_UXF, TP_TCP, TP_TLS, TP_UTLS_UX, TP_UTLS_TLS, TP_UTLS_FALLBACK, TP_BTCP, TP_BTLS };
    if (!npairs) for (int t = 0; t < 9; t++) for (int s = 0; s < ST_N; s++) if (vstate_applicable(tps[t], (enum vst)s)) { pairs[npairs][0] = tps[t]; pairs[npairs][1] = s; npairs++; }
    long gi = idx * va.nworkers + va.worker;
    c->tp = (enum vtp)pairs[gi % npairs][0]; c->st = (enum vst)pairs[gi % npairs][1];
    c->flavour = (int)((gi / npairs) % 3);
}

/* a connection driven from creation to readiness through a slow resolver and a candidate that does not answer, by finish calls only */
static void progress_case(long idx, vrng *r, enum vtp tp)
{
    cur_st = "progress(resolve-after-ms,first-candidate-silent)";
    struct vep sv, cl, ac; veng_ep_init(&sv, 2, tp, 1); veng_ep_init(&cl, 0, tp, 2); veng_ep_init(&ac, 1, tp, 3);
    const char *proto = tp == TP_TCP ? "tcp" : tp == TP_TLS ? "tls" : tp == TP_BTCP ? "btcp" : tp == TP_BTLS ? "btls" : "utls";
    const char *ips[2] = { "127.0.0.61", "127.0.0.62" };
    int port = vnet_pick_port(ips, 2);
    struct vnet_noanswer na; bool have_na = vnet_noanswer_open(&na, "127.0.0.61", port) == 0;
    char addr[128]; snprintf(addr, sizeof addr, "%s:127.0.0.62:%d", proto, port);
    struct xcm_attr_map *m = xcm_attr_map_create(); xcm_attr_map_add_bool(m, "xcm.blocking", false);
    if (vtp_is_bytestream(tp)) xcm_attr_map_add_str(m, "xcm.service", "bytestream");
    { SC(&sv, "xcm_server_a"); sv.s = xcm_server_a(addr, m); vs_leave(); take_alarms("xcm_server_a"); }
    struct vdns_plan dp; memset(&dp, 0, sizeof dp); snprintf(dp.name, sizeof dp.name, "slow.verif.test"); dp.deliver = VDNS_AFTER_MS; dp.after = 30 + (int)vrnd_n(r, 50);
    bool happy = vrnd_p(r, 50);
    if (happy && vrnd_p(r, 60)) vdns_addr6(&dp.addrs[dp.n++], "::1");       /* both families: the IPv4 attempts start 200 ms after the IPv6 one (nobody listens there) */
    vdns_addr4(&dp.addrs[dp.n++], "127.0.0.61"); vdns_addr4(&dp.addrs[dp.n++], "127.0.0.62");
    vdns_enable(true); vdns_set(&dp);
    xcm_attr_map_add_str(m, "dns.algorithm", happy ? "happy_eyeballs" : "sequential");
    xcm_attr_map_add_double(m, "tcp.connect_timeout", 0.15);
    if (vrnd_p(r, 30) && tp != TP_UTLS_TLS && tp != TP_UTLS_UX) {
        /* the local address is given by name as well: it has to be resolved too, and that takes the resolver a moment */
        struct vdns_plan lp; memset(&lp, 0, sizeof lp); snprintf(lp.name, sizeof lp.name, "local.verif.test"); lp.deliver = VDNS_AFTER_MS; lp.after = 30 + (int)vrnd_n(r, 50);
        vdns_addr4(&lp.addrs[lp.n++], "127.0.0.1"); vdns_set(&lp);
        char la[96]; snprintf(la, sizeof la, "%s:local.verif.test:0", proto); xcm_attr_map_add_str(m, "xcm.local_addr", la);
        cur_st = "progress(resolve-after-ms,first-candidate-silent,local-address-by-name)"; vobs("progress_cases_local_addr_by_name", 1);
    }
    snprintf(addr, sizeof addr, "%s:slow.verif.test:%d", proto, port);
    { SC(&cl, "xcm_connect_a"); cl.s = xcm_connect_a(addr, m); vs_leave(); take_alarms("xcm_connect_a"); triple("xcm_connect_a"); }
    xcm_attr_map_destroy(m);
    bool ready = false;
    for (int i = 0; sv.s && cl.s && i < 3000; i++) {
        if (!ac.s) { SC(&ac, "xcm_accept"); ac.s = xcm_accept(sv.s); vs_leave(); take_alarms("xcm_accept"); }
        int f1 = vx_finish(&cl); int e1 = errno; take_alarms("xcm_finish"); triple("xcm_finish");
        int f2 = ac.s ? vx_finish(&ac) : -1; take_alarms("xcm_finish");
        if (f1 == 0 && f2 == 0) { ready = true; break; }
        if (f1 < 0 && e1 != EAGAIN) break;
        struct pollfd none; vs_real_poll(&none, 0, 1);
    }
    if (ready) vobs("progress_cases_established", 1); else vobs("progress_cases_not_established", 1);
    if (cl.s) { vx_close(&cl); take_alarms("xcm_close"); }
    if (ac.s) { vx_close(&ac); take_alarms("xcm_close"); }
    if (sv.s) { vx_close(&sv); take_alarms("xcm_close"); }
    if (have_na) vnet_noanswer_close(&na);
    vdns_enable(false);
    (void)idx;
}

static void one_case(long idx, void *arg)
{
    (void)arg;
    struct ccase c; gen_case(&c, idx);
    cur_case = idx;
    uint64_t ss = vsub_seed(va.seed, (uint64_t)va.worker, (uint64_t)idx);
    vrng r = { ss };
    cur_tp = vtp_name[c.tp]; cur_st = vst_name[c.st];
    snprintf(ctx, sizeof ctx, "{\"case\":%ld,\"sub_seed\":\"%" PRIu64 "\",\"transport\":\"%s\",\"phase\":\"%s\",\"flavour\":%d}", idx, ss, cur_tp, cur_st, c.flavour);
    VLOG("case %s", ctx);
    vs_set_watch(true, false);
    bool with_ctl = c.flavour == 1;
    char ctl_dir[600] = "";
    if (with_ctl) {
        /* control interface on: clients attach, pipeline requests and never read their replies */
        snprintf(ctl_dir, sizeof ctl_dir, "%s/ctl5-%d", va.dir, (int)getpid()); mkdir(ctl_dir, 0700);
        setenv("XCM_CTL", ctl_dir, 1); vs_ledger_reset();
    }
    if (c.flavour == 2 && (c.st == ST_ESTABLISHED || c.st == ST_PEER_CLOSED || c.st == ST_FAILED) && vtp_is_tcp_based(c.tp) && c.tp != TP_UTLS_UX && c.tp != TP_UTLS_FALLBACK) {
        progress_case(idx, &r, c.tp);
        vcase_done(true); return;
    }
    struct vstate v; char why[300];
    int rc = vstate_make(&v, c.tp, c.st, ss, NULL, why, sizeof why);
    take_alarms("setup");
    if (rc < 0) {
        VLOG("state not reached: %s", why);
        char cl[120]; snprintf(cl, sizeof cl, "state-not-reached:%s/%s", cur_tp, cur_st); vclass(cl); vobs("state_not_reached", 1);
        vstate_free(&v); vcase_done(false); return;
    }
    vobs("phases_reached", 1);
    char cl[120]; snprintf(cl, sizeof cl, "%s/%s", cur_tp, cur_st); vclass(cl);
    int cfds[8]; int ncfd = 0;
    if (with_ctl) {
        ncfd = vctl_connect_all(ctl_dir, cfds, NULL, 8);
        for (int i = 0; i < ncfd; i++) { for (int k = 0; k < 12; k++) { vctl_send_get(cfds[i], "xcm.type"); if (k % 4 == 3) vctl_send_get_all(cfds[i]); } }
        if (ncfd) vobs("ctl_clients_not_reading", ncfd);
    }
    if (c.st == ST_BACKPRESSURED && (c.tp == TP_TCP || c.tp == TP_TLS || c.tp == TP_UTLS_TLS) && v.cl.s && v.ac.s) {
        /* make the frame that is held back a partly written one: the peer takes two messages, the sender refills with writes that the layer
         * below takes in small pieces, until the kernel is full again - in the middle of a frame */
        unsigned char *big = malloc(65536); int got = 0;
        for (int i = 0; i < 400 && got < 2; i++) { if (vx_receive(&v.ac, big, 65535) > 0) got++; else { struct pollfd none; vs_real_poll(&none, 0, 1); } }
        v.cl.plan.frag_send_pct = 100; v.cl.plan.frag_max = 30000;
        memset(big, 0x43, 60000); int refused = 0;
        for (int i = 0; i < 400 && refused < 3; i++) { int rc1 = vx_send(&v.cl, big, 60000); if (rc1 < 0 && errno == EAGAIN) refused++; else if (rc1 < 0) break; else refused = 0; }
        v.cl.plan.frag_send_pct = 0;
        free(big);
        take_alarms("refill");
        if (refused >= 3) vobs("backpressure_rebuilt_with_small_writes", 1);
    }
    int nops = va.thorough ? 400 : 150;
    if (v.cl.s) exercise(&v.cl, &r, nops, false, &v);
    /* a sender that closes while its peer is still not reading: whatever is held back (a frame written in part) must not be waited for */
    if (v.cl.s && vrnd_p(&r, 50)) { struct vcnt cn; if (vx_read_counters(&v.cl, &cn) && cn.v[1] != cn.v[2]) { vobs("closes_with_output_still_held", 1); if (cn.v[2] % 60004 && c.tp == TP_TCP) vobs("closes_with_a_frame_written_in_part", 1); } vx_close(&v.cl); take_alarms("xcm_close"); triple("xcm_close"); vobs("closes_before_the_peer_reads", 1); }
    if (v.ac.s) exercise(&v.ac, &r, nops / 2, false, &v);
    if (v.sv.s) exercise(&v.sv, &r, nops / 3, true, &v);
    /* closing in every phase must not wait either */
    if (v.cl.s) { vx_close(&v.cl); take_alarms("xcm_close"); triple("xcm_close"); }
    if (v.ac.s) { vx_close(&v.ac); take_alarms("xcm_close"); }
    if (v.sv.s) { vx_close(&v.sv); take_alarms("xcm_close"); }
    /* after a TLS creation that fails on unreadable credentials every later call still returns (nothing is left locked) */
    if (vtp_is_tls(c.tp)) {
        struct xcm_attr_map *bm = xcm_attr_map_create(); xcm_attr_map_add_bool(bm, "xcm.blocking", false);
        if (vtp_is_bytestream(c.tp)) xcm_attr_map_add_str(bm, "xcm.service", "bytestream");
        xcm_attr_map_add_str(bm, "tls.cert_file", va.dir);          /* a directory: can be stat'ed, cannot be loaded */
        struct vep t1; veng_ep_init(&t1, 7, c.tp, 5);
        { SC(&t1, "xcm_connect_a"); t1.s = xcm_connect_a(c.tp == TP_BTLS ? "btls:127.0.0.1:1" : "tls:127.0.0.1:1", bm); vs_leave(); take_alarms("xcm_connect_a"); }
        if (t1.s) vx_close(&t1);
        xcm_attr_map_destroy(bm);
        struct vstate v2; char why2[200];
        if (vstate_make(&v2, c.tp, ST_ESTABLISHED, ss ^ 99, NULL, why2, sizeof why2) == 0) vobs("creations_after_failed_tls_creation", 1);
        take_alarms("xcm_connect_a");
        vstate_free(&v2);
    }
    if (vtp_is_tls(c.tp) && c.tp != TP_UTLS_FALLBACK) {
        /* a non-blocking TLS server accepts a connection that is to be a blocking one, from a peer that connects and then says nothing:
         * the accept itself still returns at once */
        struct xcm_attr_map *sm2 = xcm_attr_map_create(); xcm_attr_map_add_bool(sm2, "xcm.blocking", false); if (vtp_is_bytestream(c.tp)) xcm_attr_map_add_str(sm2, "xcm.service", "bytestream");
        struct vep sv2; veng_ep_init(&sv2, 7, c.tp, 9);
        const char *pr2 = c.tp == TP_BTLS ? "btls" : c.tp == TP_TLS ? "tls" : "utls";
        char sa2[64]; snprintf(sa2, sizeof sa2, "%s:127.0.0.1:0", pr2);
        { SC(&sv2, "xcm_server_a"); sv2.s = xcm_server_a(sa2, sm2); vs_leave(); take_alarms("xcm_server_a"); }
        xcm_attr_map_destroy(sm2);
        if (sv2.s) {
            const char *la2 = xcm_local_addr(sv2.s); int port2 = la2 ? atoi(strrchr(la2, ':') + 1) : 0;
            int rfd = socket(AF_INET, SOCK_STREAM, 0); struct sockaddr_in a4 = { .sin_family = AF_INET, .sin_port = htons((unsigned short)port2) }; inet_pton(AF_INET, "127.0.0.1", &a4.sin_addr);
            if (rfd >= 0 && connect(rfd, (struct sockaddr *)&a4, sizeof a4) == 0) {
                vs_mark_harness_fd(rfd);
                struct xcm_attr_map *am2 = xcm_attr_map_create(); xcm_attr_map_add_bool(am2, "xcm.blocking", true);
                struct xcm_socket *ax = NULL;
                for (int i = 0; i < 200 && !ax; i++) { SC(&sv2, "xcm_accept_a"); ax = xcm_accept_a(sv2.s, am2); int se = errno; vs_leave(); take_alarms("xcm_accept_a"); if (!ax && se != EAGAIN) break; if (!ax) { struct pollfd none; vs_real_poll(&none, 0, 1); } }
                xcm_attr_map_destroy(am2);
                if (ax) { vobs("blocking_connections_accepted_from_a_silent_peer", 1); vs_real_close(rfd); rfd = -1; struct vs_scope bs = { .active = true, .nonblocking = false, .api = "xcm_close", .ep = 8, .plan = NULL }; vs_enter(&bs); xcm_close(ax); vs_leave(); }
            }
            if (rfd >= 0) vs_real_close(rfd);
            vx_close(&sv2);
        }
    }
    for (int i = 0; i < ncfd; i++) close(cfds[i]);
    if (idx < 2) vsample(ctx);
    vstate_free(&v);
    take_alarms("teardown");
    vobs("alarm_checks", n_alarm_checks);
    vcase_done(true);
}

int main(int argc, char **argv)
{
    vparse_args(argc, argv);
    signal(SIGPIPE, SIG_IGN);
    veng_global_init();
    for (long i = 0; i < va.cases; i++) {
        if (va.only >= 0 && i != va.only) continue;
        if (va.only >= 0) { one_case(i, NULL); continue; }
        struct ccase c; gen_case(&c, i);
        char cls[96]; snprintf(cls, sizeof cls, "C05:%s:%s", vtp_name[c.tp], vst_name[c.st]);
        vfork_case(i, one_case, NULL, 25, cls);
        if (vstop_early()) break;
    }
    vsummary(true);
    return 0;
}
