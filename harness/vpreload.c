/* vpreload.c - LD_PRELOAD shim for processes that are not the harness (xcmrelay): makes the kernel's "buffer filled up in the
 * middle of a frame" behaviour frequent.  A send() on a TCP socket is, with probability VPRELOAD_SHORT_PCT, accepted only in
 * part, and the next send() on that descriptor is refused once with EAGAIN - exactly what a full socket buffer does.  XCM
 * waits level-triggered on a descriptor that is in fact writable, so progress is never lost. */
#define _GNU_SOURCE
#include <dlfcn.h>
#include <errno.h>
#include <stdlib.h>
#include <sys/socket.h>
#include <sys/types.h>
#include <unistd.h>

static ssize_t (*real_send)(int, const void *, size_t, int);
static unsigned char refuse_next[4096];
static int short_pct = -1;
static unsigned seed;

ssize_t send(int fd, const void *buf, size_t len, int flags)
{
    if (!real_send) real_send = dlsym(RTLD_NEXT, "send");
    if (short_pct < 0) { const char *e = getenv("VPRELOAD_SHORT_PCT"); short_pct = e ? atoi(e) : 0; seed = (unsigned)getpid() * 2654435761u + (unsigned)(e ? atoi(e) : 0); }
    if (short_pct > 0 && fd >= 0 && fd < 4096 && len > 1) {
        int type = 0; socklen_t tl = sizeof type; struct sockaddr_storage ss; socklen_t sl = sizeof ss;
        if (getsockopt(fd, SOL_SOCKET, SO_TYPE, &type, &tl) == 0 && type == SOCK_STREAM && getsockname(fd, (struct sockaddr *)&ss, &sl) == 0 && (ss.ss_family == AF_INET || ss.ss_family == AF_INET6)) {
            if (refuse_next[fd]) { refuse_next[fd] = 0; errno = EAGAIN; return -1; }
            if ((int)(rand_r(&seed) % 100) < short_pct) {
                size_t k = 1 + (size_t)rand_r(&seed) % (len - 1);
                ssize_t rc = real_send(fd, buf, k, flags);
                if (rc > 0) refuse_next[fd] = 1;
                return rc;
            }
        }
    }
    return real_send(fd, buf, len, flags);
}
