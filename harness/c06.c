/* c06.c - terminal conditions are reported faithfully and stick (C06).
 *
 * Four families of cases, all with a terminal-state tracker on every XCM
 * endpoint (first terminal observation, then: no success ever again, the
 * same errno from every later send/receive/finish on TCP-based transports,
 * 0 / EPIPE after an observed close) and the prefix rule on deliveries:
 *   FAULT    an errno substituted for the n-th recv/send (or SO_ERROR of a
 *            pending connect) below XCM/OpenSSL; n, errno and the order of
 *            observing calls are enumerated;
 *   CUT      an in-process cutting proxy between two XCM endpoints severs
 *            (FIN) or resets (RST) both legs after exactly n forwarded bytes
 *            of the stream: every offset of the TLS handshake, of headers and
 *            payloads is a case;
 *   ORDERLY  the peer finishes and closes: all complete messages, then 0 for
 *            ever, send => EPIPE (all transports);
 *   CONNECT  refused / unreachable / timed-out establishment (injected
 *            SO_ERROR, address that does not answer with tcp.connect_timeout).
 */
#include "vstate.h"

#include <arpa/inet.h>
#include <fcntl.h>
#include <netinet/in.h>
#include <netinet/tcp.h>
#include <poll.h>
#include <signal.h>
#include <sys/socket.h>

static long cur_case;
static char ctx[700];

enum kind { K_FAULT, K_CUT, K_ORDERLY, K_CONNECT };
static const char *const kind_name[] = { "fault", "cut", "orderly", "connect" };
enum op { OP_RECV, OP_SEND, OP_FINISH };
static const char *const op_name[] = { "xcm_receive", "xcm_send", "xcm_finish" };
static const int errnos[] = { ECONNRESET, ETIMEDOUT, EHOSTUNREACH, ENETUNREACH, ECONNREFUSED, EPIPE };

struct ccase {
    enum kind kind; enum vtp tp;
    int fcall;          /* FAULT: VS_RECV / VS_SEND; CONNECT: 0 so_error, 1 no-answer timeout, 2 connect() errno */
    int ferrno; int fn; /* errno and index of the failing call */
    int first_obs;      /* which call observes first */
    long cut_at; int cut_dir; bool rst;     /* CUT: byte offset in direction cut_dir (0: server->client, 1: client->server) */
    bool pending_frame; /* the endpoint under test has a frame pending for write when the fault hits */
    int nmsg;
};

/* ---- terminal tracker ---- */
struct ttrk { bool rx_end;   /* xcm_receive has returned 0 */  int kind; int err; long ops_after; bool pending_local; };   /* kind: 0 none, 1 closed, 2 failed */

static void tv(const struct ccase *c, struct vep *e, const char *rule, const char *fmt, ...)
{
    char msg[700]; va_list ap; va_start(ap, fmt); vsnprintf(msg, sizeof msg, fmt, ap); va_end(ap);
    char key[200]; snprintf(key, sizeof key, "terminal:%s:%s:%s", rule, kind_name[c->kind], vtp_name[e->tp]);
    vviol(cur_case, "terminal", key, veng_detail(ctx), "ep%d %s: %s; %s", e->id, vtp_name[e->tp], msg, ctx);
}

static bool tcp_based(struct vep *e) { return vtp_is_tcp_based(e->tp) && e->tp != TP_UTLS_UX; }

/* feed the outcome of one call into the tracker; success = the call did what it was asked */
static void trk(const struct ccase *c, struct vep *e, struct ttrk *t, enum op op, int rc, int se)
{
    bool success = op == OP_RECV ? rc > 0 : rc >= 0;
    bool again = rc < 0 && se == EAGAIN;
    if (t->kind == 0) {
        if (op == OP_RECV && rc == 0) { t->kind = 1; t->rx_end = true; }
        else if (rc < 0 && !again) {
            if (se == EPIPE) t->kind = 1;        /* the peer's close, noticed while writing */
            else { t->kind = 2; t->err = se; }
        }
        return;
    }
    t->ops_after++;
    /* the close was noticed while writing: what the peer sent before it closed has arrived and is still owed, until xcm_receive says 0 */
    if (t->kind == 1 && !t->rx_end && op == OP_RECV) { if (rc == 0) t->rx_end = true; if (rc >= 0) return; }
    /* xcm_finish == 0 says "nothing outstanding"; the property demands an errno from it only after a failure on the TCP-based transports */
    if (success && op == OP_FINISH && !(t->kind == 2 && tcp_based(e))) return;
    if (success) { tv(c, e, "success-after-terminal", "%s returned %d after the socket had reported %s", op_name[op], rc, t->kind == 1 ? "the peer's close" : strerror(t->err)); return; }
    if (t->kind == 1) {
        if (op == OP_RECV && rc != 0 && !(rc < 0 && se == EPIPE)) tv(c, e, "close-not-sticky", "xcm_receive returned %d (errno %d) after it had returned 0 / the close had been seen", rc, se);
        else if (op == OP_SEND && !(rc < 0 && se == EPIPE)) tv(c, e, "send-after-close", "xcm_send returned %d errno %d after the peer's close had been seen, expected -1/EPIPE", rc, se);
        else if (op == OP_FINISH && again) tv(c, e, "finish-eagain-after-close", "xcm_finish reports EAGAIN after the peer's close had been seen");
    } else {
        if (again) tv(c, e, "eagain-after-failure", "%s reports EAGAIN after the connection had failed with %s", op_name[op], strerror(t->err));
        else if (tcp_based(e) && !(rc < 0 && se == t->err)) tv(c, e, "errno-not-sticky", "%s returned %d errno %d (%s) after the connection had failed with errno %d (%s)", op_name[op], rc, se, strerror(se), t->err, strerror(t->err));
    }
}

/* ---- cutting proxy ---- */
struct proxy {
    int lfd, cfd, sfd;          /* listener, leg to the client, leg to the server */
    int sport;                  /* server's real port */
    long long fwd[2];           /* [0] server->client bytes, [1] client->server bytes */
    long long cut_at; int cut_dir; bool rst, cut_done, eof[2];
    unsigned char pend[2][65536]; size_t pend_len[2], pend_off[2];
};

static void proxy_init(struct proxy *p) { memset(p, 0, sizeof *p); p->lfd = p->cfd = p->sfd = -1; p->cut_at = -1; }

static int proxy_listen(struct proxy *p, int *port_out)
{
    const char *ips[1] = { "127.0.0.1" }; int port = vnet_pick_port(ips, 1);
    p->lfd = vnet_listen("127.0.0.1", port, 4);
    if (p->lfd < 0) return -1;
    fcntl(p->lfd, F_SETFL, O_NONBLOCK);
    *port_out = port;
    return 0;
}

static void proxy_cut(struct proxy *p)
{
    p->cut_done = true;
    vs_note("PROXY cut after s->c %lld c->s %lld bytes (%s)", p->fwd[0], p->fwd[1], p->rst ? "RST" : "FIN");
    int fds[2] = { p->cfd, p->sfd };
    for (int i = 0; i < 2; i++) {
        if (fds[i] < 0) continue;
        if (p->rst) { struct linger lg = { 1, 0 }; setsockopt(fds[i], SOL_SOCKET, SO_LINGER, &lg, sizeof lg); close(fds[i]); }
        else shutdown(fds[i], SHUT_WR);     /* FIN; the read side keeps draining so that no RST is provoked */
    }
    if (p->rst) p->cfd = p->sfd = -1;
}

static void proxy_pump(void *arg)
{
    struct proxy *p = arg;
    if (p->lfd >= 0 && p->cfd < 0 && !p->cut_done) {
        int fd = accept4(p->lfd, NULL, NULL, SOCK_NONBLOCK);
        if (fd >= 0) {
            vs_mark_harness_fd(fd); p->cfd = fd;
            int one = 1; setsockopt(fd, IPPROTO_TCP, TCP_NODELAY, &one, sizeof one);
            int s = socket(AF_INET, SOCK_STREAM, 0);
            struct sockaddr_in a = { .sin_family = AF_INET, .sin_port = htons((unsigned short)p->sport) }; inet_pton(AF_INET, "127.0.0.1", &a.sin_addr);
            if (connect(s, (struct sockaddr *)&a, sizeof a) < 0) { close(s); s = -1; }
            else { fcntl(s, F_SETFL, O_NONBLOCK); setsockopt(s, IPPROTO_TCP, TCP_NODELAY, &one, sizeof one); vs_mark_harness_fd(s); }
            p->sfd = s;
            if (p->cut_at == 0) proxy_cut(p);
        }
    }
    if (p->cfd < 0 && p->sfd < 0) return;
    for (int dir = 0; dir < 2; dir++) {
        int src = dir == 0 ? p->sfd : p->cfd, dst = dir == 0 ? p->cfd : p->sfd;
        if (src < 0) continue;
        for (int round = 0; round < 8; round++) {
            if (p->pend_len[dir] == p->pend_off[dir]) {
                p->pend_len[dir] = p->pend_off[dir] = 0;
                ssize_t n = recv(src, p->pend[dir], sizeof p->pend[dir], MSG_DONTWAIT);
                if (n == 0) { if (!p->eof[dir]) { p->eof[dir] = true; if (!p->cut_done && dst >= 0) shutdown(dst, SHUT_WR); } break; }
                if (n < 0) break;
                if (p->cut_done) continue;      /* after a FIN cut: drain and discard */
                p->pend_len[dir] = (size_t)n;
            }
            if (p->cut_done || dst < 0) { p->pend_len[dir] = p->pend_off[dir] = 0; break; }
            size_t want = p->pend_len[dir] - p->pend_off[dir];
            if (p->cut_at >= 0 && dir == p->cut_dir) { long long room = p->cut_at - p->fwd[dir]; if ((long long)want > room) want = (size_t)room; }
            if (want > 0) {
                ssize_t w = send(dst, p->pend[dir] + p->pend_off[dir], want, MSG_DONTWAIT | MSG_NOSIGNAL);
                if (w <= 0) break;
                p->pend_off[dir] += (size_t)w; p->fwd[dir] += w;
            }
            if (p->cut_at >= 0 && dir == p->cut_dir && p->fwd[dir] >= p->cut_at) { proxy_cut(p); return; }
        }
    }
}

static void proxy_close(struct proxy *p)
{
    if (p->cfd >= 0) close(p->cfd);
    if (p->sfd >= 0) close(p->sfd);
    if (p->lfd >= 0) close(p->lfd);
    p->cfd = p->sfd = p->lfd = -1;
}

/* ---- helpers ---- */
static unsigned char big[70000];

static int do_op(const struct ccase *c, struct vep *e, struct ttrk *t, enum op op, struct vep *peer, vrng *r)
{
    int rc, se;
    if (op == OP_RECV) {
        size_t cap = e->bytestream ? 1 + vrnd_n(r, 70000) : 65535;
        rc = vx_receive(e, big, cap); se = errno;
        if (rc > 0) veng_rx_add(e, big, rc, cap);
    } else if (op == OP_SEND) {
        uint32_t len = 1 + vrnd_n(r, 300);
        long ai = veng_att_begin(e, len);
        unsigned char *b = malloc(len); veng_fill(e->key, e->att[ai].id, b, len);
        rc = vx_send(e, b, len); se = errno; free(b);
        veng_att_end(e, ai, rc, se);
    } else { rc = vx_finish(e); se = errno; }
    trk(c, e, t, op, rc, se);
    (void)peer;
    errno = se;
    return rc;
}

static void send_msgs(struct vep *e, int n, vrng *r, bool large)
{
    for (int i = 0; i < n; i++) {
        uint32_t len = large ? 20000 + vrnd_n(r, 45000) : 1 + vrnd_n(r, 200);
        long ai = veng_att_begin(e, len);
        unsigned char *b = malloc(len); veng_fill(e->key, e->att[ai].id, b, len);
        int rc = vx_send(e, b, len); int se = errno; free(b);
        veng_att_end(e, ai, rc, se);
        if (rc < 0) break;
    }
}

static void flush(struct vep *e, void (*pump)(void *), void *pa)
{ for (int i = 0; i < 3000; i++) { if (pump) pump(pa); if (vx_finish(e) == 0 || errno != EAGAIN) return; struct pollfd none; vs_real_poll(&none, 0, 1); } }

/* observer phase: ops on `e` until `after` calls have been made beyond the first terminal observation */
static void observe(const struct ccase *c, struct vep *e, struct ttrk *t, struct vep *peer, vrng *r, int first_obs, int after, void (*pump)(void *), void *pa, bool allow_send)
{
    int idle = 0;
    for (int i = 0; i < 6000 && t->ops_after < after; i++) {
        if (pump) pump(pa);
        enum op op = i == 0 || vrnd_p(r, 40) ? (enum op)first_obs : (enum op)vrnd_n(r, 3);
        if (op == OP_SEND && !allow_send && t->kind == 0) op = OP_RECV;
        int rc = do_op(c, e, t, op, peer, r);
        if (t->kind == 0 && rc < 0 && errno == EAGAIN) { if (++idle > 20) { struct pollfd none; vs_real_poll(&none, 0, 1); } if (idle > 1500) break; }
        if (vviol_count() > 0) break;
    }
}

/* ---- case generation ---- */
static const enum vtp tcp_tps[] = { TP_TCP, TP_TLS, TP_BTCP, TP_BTLS, TP_UTLS_TLS };
static const enum vtp all_tps[] = { TP_UX, TP_UXF, TP_TCP, TP_TLS, TP_UTLS_UX, TP_UTLS_TLS, TP_BTCP, TP_BTLS };

static void gen_case(struct ccase *c, long idx, vrng *r)
{
    memset(c, 0, sizeof *c);
    long gi = idx * va.nworkers + va.worker;
    unsigned k = (unsigned)(gi % 10);
    c->nmsg = 1 + (int)vrnd_n(r, 4);
    if (k < 4) {
        c->kind = K_FAULT; c->tp = tcp_tps[(gi / 10) % 5];
        c->fcall = vrnd_p(r, 55) ? VS_RECV : VS_SEND;
        c->ferrno = errnos[(gi / 50) % 6];
        if (c->ferrno == EPIPE) c->fcall = VS_SEND;          /* EPIPE is an errno of writes */
        c->fn = 1 + (int)vrnd_n(r, c->fcall == VS_RECV ? 6 : 4);
        c->first_obs = (int)((gi / 300) % 3);
        c->pending_frame = vrnd_p(r, 30);
    } else if (k < 8) {
        c->kind = K_CUT; c->tp = tcp_tps[(gi / 10) % 5];
        c->cut_dir = vrnd_p(r, 70) ? 0 : 1; c->rst = vrnd_p(r, 40);
        c->cut_at = -2;         /* chosen after the learning run */
        c->first_obs = (int)vrnd_n(r, 3);
        c->pending_frame = vrnd_p(r, 25);
    } else if (k < 9) {
        c->kind = K_ORDERLY; c->tp = all_tps[(gi / 10) % 8]; c->first_obs = OP_RECV;
    } else {
        c->kind = K_CONNECT; c->tp = tcp_tps[(gi / 10) % 5];
        c->fcall = (int)vrnd_n(r, 3); c->ferrno = errnos[(gi / 50) % 5]; c->first_obs = (int)vrnd_n(r, 3);
        if (c->fcall == 1) c->ferrno = ETIMEDOUT;
    }
}

static void case_json(const struct ccase *c, long idx, uint64_t ss)
{
    snprintf(ctx, sizeof ctx, "{\"case\":%ld,\"sub_seed\":\"%" PRIu64 "\",\"kind\":\"%s\",\"transport\":\"%s\",\"fault_call\":\"%s\",\"fault_errno\":%d,\"fault_index\":%d,\"first_observer\":\"%s\",\"cut_at\":%ld,\"cut_dir\":\"%s\",\"cut\":\"%s\",\"frame_pending\":%d,\"messages\":%d}",
             idx, ss, kind_name[c->kind], vtp_name[c->tp], c->kind == K_FAULT ? vs_call_name[c->fcall] : c->kind == K_CONNECT ? (c->fcall == 0 ? "SO_ERROR" : c->fcall == 1 ? "no-answer" : "connect") : "-",
             c->ferrno, c->fn, op_name[c->first_obs], c->cut_at, c->cut_dir ? "client->server" : "server->client", c->rst ? "RST" : "FIN", c->pending_frame, c->nmsg);
}

/* ---- the cases ---- */
static void final_delivery_checks(long idx, struct vep *a, struct vep *b)
{
    /* whatever was delivered is a prefix of what the peer's sends accepted: a message the peer did not send completely is never delivered */
    if (b->n_att) veng_check_delivery(idx, b, a, false, ctx);
    if (a->n_att) veng_check_delivery(idx, a, b, false, ctx);
}


/* Another TLS connection handled by the same thread runs into a protocol error first (a peer that speaks something else).  That is that
 * connection's business: what the connection under test reports later must be unaffected. */
static void prior_tls_protocol_error(void)
{
    struct xcm_attr_map *m = xcm_attr_map_create(); xcm_attr_map_add_bool(m, "xcm.blocking", false);
    struct xcm_socket *sv = xcm_server_a("tls:127.0.0.1:0", m); xcm_attr_map_destroy(m);
    if (!sv) return;
    const char *la = xcm_local_addr(sv); int port = la ? atoi(strrchr(la, ':') + 1) : 0;
    int fd = socket(AF_INET, SOCK_STREAM, 0);
    struct sockaddr_in a = { .sin_family = AF_INET, .sin_port = htons((unsigned short)port) }; inet_pton(AF_INET, "127.0.0.1", &a.sin_addr);
    struct xcm_socket *x = NULL; bool eproto = false;
    int crc = fd >= 0 ? connect(fd, (struct sockaddr *)&a, sizeof a) : -1; int cerr = errno;
    VLOG("prior protocol error step: raw connect to port %d -> %d errno %d", port, crc, cerr);
    if (crc == 0) {
        vs_mark_harness_fd(fd);
        static const char junk[] = "GET / HTTP/1.0\r\n\r\nthis is not a TLS ClientHello at all, it is just some text";
        if (vs_real_send(fd, junk, sizeof junk, MSG_NOSIGNAL) < 0) {}
        for (int i = 0; i < 2000 && !eproto; i++) {
            if (!x) { x = xcm_accept(sv); if (!x && errno != EAGAIN) { eproto = true; break; } }      /* the handshake may already fail inside xcm_accept */
            if (x) { char b[64]; int rc = xcm_receive(x, b, sizeof b); if (rc < 0 && errno != EAGAIN) eproto = true; else if (rc == 0) break; }
            if (!eproto) { struct pollfd none; vs_real_poll(&none, 0, 1); }
        }
    }
    VLOG("prior protocol error step: server %p accepted %p eproto %d", (void *)sv, (void *)x, eproto);
    if (eproto) vobs("prior_tls_protocol_errors", 1);
    if (x) xcm_close(x);
    if (fd >= 0) vs_real_close(fd);
    xcm_close(sv);
}

static void run_fault(struct ccase *c, long idx, vrng *r)
{
    struct vep A, B, S; veng_ep_init(&A, 0, c->tp, vmix(r->s ^ 1)); veng_ep_init(&B, 1, c->tp, vmix(r->s ^ 2)); veng_ep_init(&S, 2, c->tp, vmix(r->s ^ 3));
    char why[256] = ""; struct vpair_opts po = { .user_timeout = 60 };
    if (veng_pair(c->tp, &A, &B, &S, &po, why, sizeof why) < 0) { vobs("setup_failed", 1); goto out; }
    if (vtp_is_tls(c->tp) && (vrnd_p(r, 30) || getenv("VERIF_C06_DIRTY"))) prior_tls_protocol_error();
    if (c->fcall == VS_SEND && c->tp != TP_BTCP && vrnd_p(r, 25)) {
        /* the blocking form: the call's first write goes out in part, the next is refused, and the failure arrives while the very same
         * xcm_send is flushing what it has accepted - that call is the one that discovers it and has to say so */
        if (vx_set_blocking(&A, true) == 0) {
            A.plan.frag_send_pct = 100; A.plan.frag_max = 50; A.plan.refuse_after_partial = true;
            A.plan.fail_errno = c->ferrno; A.plan.fail_call = VS_SEND; A.plan.fail_at = (int)A.plan.n_call[VS_SEND] + 3; A.plan.fail_fired = false;
            uint32_t len = A.bytestream ? 20000 : 3000; unsigned char *b = malloc(len);
            long ai = veng_att_begin(&A, len); veng_fill(A.key, A.att[ai].id, b, len);
            int rc = vx_send(&A, b, len); int se = errno; free(b); veng_att_end(&A, ai, rc, se);
            vobs("blocking_sends_meeting_the_fault_while_flushing", 1);
            if (A.plan.fail_fired) {
                vobs("faults_fired", 1);
                if (!(rc < 0 && se == c->ferrno)) tv(c, &A, "discoverer-misreports", "blocking xcm_send (first write partial, second refused) met the injected %s while flushing what it had accepted, but returned %d errno %d (%s)", strerror(c->ferrno), rc, se, strerror(se));
                else { errno = 0; unsigned char one[8] = { 0 }; int rc2 = vx_send(&A, one, sizeof one); int se2 = errno; bool pipe_ok = c->ferrno == EPIPE && rc2 < 0 && se2 == EPIPE;
                       if (!(rc2 < 0 && (se2 == c->ferrno || pipe_ok))) tv(c, &A, "errno-not-sticky", "after a blocking xcm_send had failed with %s the next xcm_send returned %d errno %d", strerror(c->ferrno), rc2, se2); }
            }
            { char tup[160]; snprintf(tup, sizeof tup, "fault-blocking|%s|%d", vtp_name[c->tp], c->ferrno); vsig_str(tup); }
            goto out;
        }
    }
    /* the peer has sent some messages; optionally the endpoint under test has a frame pending */
    send_msgs(&B, c->nmsg, r, false); flush(&B, NULL, NULL);
    if (c->pending_frame) { for (int i = 0; i < 400; i++) { send_msgs(&A, 1, r, true); if (A.n_att && A.att[A.n_att - 1].state == -1) break; } }
    A.plan.fail_call = c->fcall; A.plan.fail_at = (int)A.plan.n_call[c->fcall] + c->fn; A.plan.fail_errno = c->ferrno; A.plan.fail_fired = false;
    struct ttrk t = { 0 };
    /* drive until the injection has fired, noting which call discovered it */
    bool fired_seen = false; enum op disc_op = OP_RECV; int disc_rc = 0, disc_errno = 0;
    for (int i = 0; i < 4000 && !fired_seen; i++) {
        enum op op = i == 0 || vrnd_p(r, 50) ? (enum op)c->first_obs : (enum op)vrnd_n(r, 3);
        if (c->fcall == VS_SEND && i > 40) op = OP_SEND;         /* make sure writes happen */
        bool before = A.plan.fail_fired;
        int rc = do_op(c, &A, &t, op, &B, r); int se = errno;
        if (!before && A.plan.fail_fired) { fired_seen = true; disc_op = op; disc_rc = rc; disc_errno = se; }
        if (t.kind && !A.plan.fail_fired) break;          /* something else ended the connection first */
        if (vviol_count()) break;
    }
    if (fired_seen) {
        vobs("faults_fired", 1);
        char tup[160]; snprintf(tup, sizeof tup, "fault|%s|%s|%d|%s", vtp_name[c->tp], vs_call_name[c->fcall], c->ferrno, op_name[disc_op]); vsig_str(tup);
        /* the discovering call reports that errno.  EPIPE met while writing is the peer's close: receive reports 0 then */
        bool ok = disc_rc < 0 && disc_errno == c->ferrno;
        if (c->ferrno == EPIPE && c->fcall == VS_SEND && ((disc_op == OP_RECV && disc_rc >= 0) || (disc_rc < 0 && disc_errno == EPIPE))) ok = true;     /* a receive may still deliver what arrived before the close */
        if (!ok) tv(c, &A, "discoverer-misreports", "%s met the injected %s on %s #%d but returned %d errno %d (%s)", op_name[disc_op], strerror(c->ferrno), vs_call_name[c->fcall], c->fn, disc_rc, disc_errno, strerror(disc_errno));
        else observe(c, &A, &t, &B, r, c->first_obs, 12, NULL, NULL, true);
        if (t.kind == 2 && t.err != c->ferrno && !vviol_count()) tv(c, &A, "wrong-terminal-errno", "terminal errno is %d, injected was %d", t.err, c->ferrno);
    } else vobs("faults_not_reached", 1);
    final_delivery_checks(idx, &A, &B);
    vobs("terminal_probe_calls", t.ops_after);
out:
    A.plan.quiet = B.plan.quiet = true;
    if (A.s) vx_close(&A); if (B.s) vx_close(&B); if (S.s) vx_close(&S);
    veng_ep_free(&A); veng_ep_free(&B); veng_ep_free(&S);
}

/* one run through the proxy; cut_at < 0: learning run (no cut), returns bytes forwarded in *tot */
static void proxy_run(struct ccase *c, long idx, vrng *r, long long cut_at, long long tot[2], bool judge)
{
    struct vep A, B, S; veng_ep_init(&A, 0, c->tp, vmix(r->s ^ 1)); veng_ep_init(&B, 1, c->tp, vmix(r->s ^ 2)); veng_ep_init(&S, 2, c->tp, vmix(r->s ^ 3));
    struct proxy px; proxy_init(&px);
    int pport = 0;
    if (proxy_listen(&px, &pport) < 0) { vobs("setup_failed", 1); return; }
    px.cut_at = cut_at; px.cut_dir = c->cut_dir; px.rst = c->rst;
    /* the server must exist before the client connects: create it through veng_pair with the client aimed at the proxy */
    const char *proto = c->tp == TP_TCP ? "tcp" : c->tp == TP_TLS || c->tp == TP_UTLS_TLS ? "tls" : c->tp == TP_BTCP ? "btcp" : "btls";
    const char *sproto = c->tp == TP_UTLS_TLS ? "utls" : proto;
    const char *ips[1] = { "127.0.0.1" }; int sport = vnet_pick_port(ips, 1);
    px.sport = sport;
    char saddr[64], caddr[64]; snprintf(saddr, sizeof saddr, "%s:127.0.0.1:%d", sproto, sport); snprintf(caddr, sizeof caddr, "%s:127.0.0.1:%d", proto, pport);
    char why[256] = ""; struct vpair_opts po = { .user_timeout = 60, .server_addr = saddr, .connect_addr = caddr, .pump = proxy_pump, .pump_arg = &px, .max_rounds = 3000 };
    struct ttrk ta = { 0 }, tb = { 0 };
    int prc = veng_pair(c->tp, &A, &B, &S, &po, why, sizeof why);
    if (prc < 0 && !px.cut_done) { vobs("setup_failed", 1); VLOG("setup failed: %s", why); goto out; }
    if (prc == 0) {
        /* traffic: the accepted side sends messages to the client, the client a few back */
        send_msgs(&B, c->nmsg, r, false); send_msgs(&A, 1 + c->nmsg / 2, r, false);
        if (c->pending_frame && judge) for (int i = 0; i < 400; i++) { proxy_pump(&px); send_msgs(&A, 1, r, true); if (A.att[A.n_att - 1].state == -1) break; }
        for (int i = 0; i < 400; i++) { proxy_pump(&px); int f1 = B.s ? vx_finish(&B) : 0, f2 = vx_finish(&A); if (f1 == 0 && f2 == 0 && px.pend_len[0] == px.pend_off[0] && px.pend_len[1] == px.pend_off[1] && i > 20) break; if (px.cut_done) break; struct pollfd none; vs_real_poll(&none, 0, 1); }
    }
    if (!judge) {
        /* learning run: read everything so that the byte counts are complete */
        for (int i = 0; i < 200; i++) { proxy_pump(&px); if (A.s) vx_receive(&A, big, 65535); if (B.s) vx_receive(&B, big, 65535); if (i > 30 && px.pend_len[0] == px.pend_off[0] && px.pend_len[1] == px.pend_off[1]) break; struct pollfd none; vs_real_poll(&none, 0, 1); }
        tot[0] = px.fwd[0]; tot[1] = px.fwd[1];
        goto out;
    }
    if (!px.cut_done) { vobs("cut_not_reached", 1); goto out; }
    vobs("cuts_made", 1);
    if (prc < 0) vobs("cuts_during_establishment", 1); else vobs("cuts_after_establishment", 1);
    /* both ends observe; the client end is A (may have failed during establishment: the tracker starts from its first terminal report) */
    if (A.s) observe(c, &A, &ta, &B, r, c->first_obs, 10, proxy_pump, &px, prc == 0);
    if (B.s && !vviol_count()) observe(c, &B, &tb, &A, r, (c->first_obs + 1) % 3, 10, proxy_pump, &px, prc == 0);
    if (A.s && ta.kind == 0 && !vviol_count()) tv(c, &A, "death-not-reported", "the connection was severed (%s after %lld/%lld bytes) but no call on the client reports it", c->rst ? "RST" : "FIN", px.fwd[0], px.fwd[1]);
    if (B.s && tb.kind == 0 && !vviol_count()) tv(c, &B, "death-not-reported", "the connection was severed (%s after %lld/%lld bytes) but no call on the accepted socket reports it", c->rst ? "RST" : "FIN", px.fwd[0], px.fwd[1]);
    if (prc == 0) final_delivery_checks(idx, &A, &B);
    vobs("terminal_probe_calls", ta.ops_after + tb.ops_after);
    { char tup[160]; snprintf(tup, sizeof tup, "cut|%s|%s|%s|%s|%d|%d", vtp_name[c->tp], c->rst ? "rst" : "fin", c->cut_dir ? "c2s" : "s2c", prc < 0 ? "handshake" : "ready", ta.kind * 10 + tb.kind, ta.kind == 2 ? ta.err : 0); vsig_str(tup); }
out:
    A.plan.quiet = B.plan.quiet = true;
    if (A.s) vx_close(&A); if (B.s) vx_close(&B); if (S.s) vx_close(&S);
    proxy_close(&px);
    veng_ep_free(&A); veng_ep_free(&B); veng_ep_free(&S);
}

static void run_cut(struct ccase *c, long idx, vrng *r)
{
    long long tot[2] = { 0, 0 };
    vrng r2 = *r;
    proxy_run(c, idx, &r2, -1, tot, false);
    if (tot[0] <= 0) { vobs("learning_run_failed", 1); return; }
    /* enumerate: the case index walks over all offsets of the chosen direction */
    long gi = idx * va.nworkers + va.worker;
    long long T = tot[c->cut_dir];
    long long n = (long long)((uint64_t)(gi / 10) * 7919u % (uint64_t)(T + 1));
    if (vrnd_p(r, 35) && T > 12) n = T - (long long)vrnd_n(r, 12);        /* emphasise the tail: last frame and its header */
    c->cut_at = (long)n;
    case_json(c, idx, vsub_seed(va.seed, (uint64_t)va.worker, (uint64_t)idx));
    vobs_max("max_stream_bytes", (long)T);
    r2 = *r;
    proxy_run(c, idx, &r2, n, tot, true);
}

static void run_orderly(struct ccase *c, long idx, vrng *r)
{
    struct vep A, B, S; veng_ep_init(&A, 0, c->tp, vmix(r->s ^ 1)); veng_ep_init(&B, 1, c->tp, vmix(r->s ^ 2)); veng_ep_init(&S, 2, c->tp, vmix(r->s ^ 3));
    char why[256] = ""; struct vpair_opts po = { .user_timeout = 60 };
    if (veng_pair(c->tp, &A, &B, &S, &po, why, sizeof why) < 0) { vobs("setup_failed", 1); goto out; }
    if (vtp_is_tls(c->tp) && (vrnd_p(r, 30) || getenv("VERIF_C06_DIRTY"))) prior_tls_protocol_error();
    bool b_is_closer = vrnd_p(r, 50);
    struct vep *cl = b_is_closer ? &B : &A, *ob = b_is_closer ? &A : &B;
    send_msgs(cl, c->nmsg + (int)vrnd_n(r, 20), r, vrnd_p(r, 20)); flush(cl, NULL, NULL);
    long sent_ok = cl->n_ok; uint64_t bytes_ok = cl->bytes_ok;
    vx_close(cl);
    struct ttrk t = { 0 };
    if (vrnd_p(r, 30) || getenv("VERIF_C06_SENDFIRST")) {
        /* the observer is itself sending when the peer closes: one of its sends is the first call to see the close.  What the peer had sent
         * before closing has arrived all the same and is owed before the terminal condition, whichever call noticed it first */
        bool saw = false;
        for (int i = 0; i < 300 && !saw; i++) {
            int rc = do_op(c, ob, &t, OP_SEND, cl, r); if (rc < 0 && errno != EAGAIN) saw = true;
            if (!saw) { if (vx_finish(ob) < 0 && errno != EAGAIN) saw = true; }
            if (!saw && i > 20) { struct pollfd none; vs_real_poll(&none, 0, 1); }
        }
        if (vviol_count()) goto out;
        vobs(saw ? "orderly_close_first_seen_by_a_send" : "orderly_close_not_seen_by_sends", 1);
        struct ttrk t2 = { 0 };
        for (int i = 0; i < 4000 && t2.kind == 0; i++) { int rc = do_op(c, ob, &t2, OP_RECV, cl, r); if (rc < 0 && errno == EAGAIN) { struct pollfd none; vs_real_poll(&none, 0, 1); } if (vviol_count()) goto out; }
        bool short_of = ob->bytestream ? ob->rx_stream_len < bytes_ok : ob->n_rx < sent_ok;
        /* a send that was still in flight when the peer closed makes the peer's kernel reset the connection: then the end is a reset
         * (an error on every call), and what had arrived may be gone with it - TCP's doing, the other clause of the property */
        if (short_of && t2.kind == 2) { vobs("close_raced_into_reset", 1); short_of = false; goto sf_done; }
        if (short_of) {
            char k2[64]; snprintf(k2, sizeof k2, "%s", t2.kind == 1 ? "as-close" : t2.kind == 2 ? "as-error" : "nothing-reported");
            tv(c, ob, "arrived-data-dropped-after-send-saw-close", "the peer sent %ld messages / %" PRIu64 " bytes, flushed and closed; the observer, itself sending, had a send fail first (%s); its receives then returned %ld messages / %zu bytes before reporting %s (errno %d)", sent_ok, bytes_ok, saw ? "yes" : "no", ob->n_rx, ob->rx_stream_len, k2, t2.err);
        } else { vobs("orderly_closes_verified_send_first", 1); veng_check_delivery(idx, cl, ob, false, ctx); }
    sf_done:
        vobs("terminal_probe_calls", t2.ops_after);
        { char tup[100]; snprintf(tup, sizeof tup, "orderly-send-first|%s|%d", vtp_name[c->tp], b_is_closer); vsig_str(tup); }
        goto out;
    }
    observe(c, ob, &t, cl, r, OP_RECV, 12, NULL, NULL, false);
    if (!vviol_count()) {
        if (t.kind != 1) tv(c, ob, "orderly-close-not-zero", "the peer flushed and closed, nothing was outstanding locally, but the close was reported as kind %d errno %d", t.kind, t.err);
        else if (ob->bytestream ? ob->rx_stream_len != bytes_ok : ob->n_rx != sent_ok) tv(c, ob, "close-before-data", "xcm_receive returned 0 after %ld messages / %zu bytes, the peer had sent %ld / %" PRIu64 " before closing", ob->n_rx, ob->rx_stream_len, sent_ok, bytes_ok);
        else { vobs("orderly_closes_verified", 1); veng_check_delivery(idx, cl, ob, true, ctx); }
    }
    vobs("terminal_probe_calls", t.ops_after);
    { char tup[100]; snprintf(tup, sizeof tup, "orderly|%s|%d", vtp_name[c->tp], b_is_closer); vsig_str(tup); }
out:
    if (A.s) vx_close(&A); if (B.s) vx_close(&B); if (S.s) vx_close(&S);
    veng_ep_free(&A); veng_ep_free(&B); veng_ep_free(&S);
}

static void run_connect(struct ccase *c, long idx, vrng *r)
{
    (void)idx;
    struct vep A; veng_ep_init(&A, 0, c->tp, vmix(r->s ^ 1));
    const char *proto = c->tp == TP_TCP ? "tcp" : c->tp == TP_TLS || c->tp == TP_UTLS_TLS ? "tls" : c->tp == TP_BTCP ? "btcp" : "btls";
    const char *ip = "127.0.0.71"; const char *ips[1] = { ip }; int port = vnet_pick_port(ips, 1);
    struct vnet_noanswer na; bool have_na = vnet_noanswer_open(&na, ip, port) == 0;
    char addr[96]; snprintf(addr, sizeof addr, "%s:%s:%d", proto, ip, port);
    struct xcm_attr_map *m = xcm_attr_map_create(); xcm_attr_map_add_bool(m, "xcm.blocking", false);
    if (vtp_is_bytestream(c->tp)) xcm_attr_map_add_str(m, "xcm.service", "bytestream");
    xcm_attr_map_add_double(m, "tcp.connect_timeout", c->fcall == 1 ? 0.12 : 30.0);
    if (c->fcall == 2) { A.plan.fail_call = VS_CONNECT; A.plan.fail_at = 1; A.plan.fail_errno = c->ferrno; }
    { struct vs_scope sc = { .active = true, .nonblocking = true, .api = "xcm_connect_a", .ep = 0, .plan = &A.plan }; vs_enter(&sc); A.s = xcm_connect_a(addr, m); int se = errno; vs_leave(); errno = se; }
    int ce = errno;
    xcm_attr_map_destroy(m);
    struct ttrk t = { 0 };
    if (c->fcall == 2) {
        /* connect() itself fails: either the call reports it, or the socket does later */
        if (!A.s) { vobs("connect_failures_reported_by_connect_a", 1); if (ce != c->ferrno) tv(c, &A, "connect-errno", "xcm_connect_a failed with errno %d, connect() had failed with %d", ce, c->ferrno); goto out; }
    } else if (!A.s) { vobs("setup_failed", 1); goto out; }
    if (c->fcall == 0) { A.plan.fail_call = VS_GETSOCKOPT; A.plan.fail_at = (int)A.plan.n_call[VS_GETSOCKOPT] + 1; A.plan.fail_errno = c->ferrno; A.plan.fail_fired = false; if (have_na) vnet_noanswer_release(&na); }
    double t0 = vnow();
    for (int i = 0; i < 6000 && t.ops_after < 12; i++) {
        enum op op = i == 0 || vrnd_p(r, 40) ? (enum op)c->first_obs : (enum op)vrnd_n(r, 3);
        int rc = do_op(c, &A, &t, op, NULL, r);
        if (t.kind == 0 && rc >= 0 && op == OP_FINISH) break;          /* established after all (release of the queue): not a failure case */
        if (t.kind == 0) { struct pollfd none; vs_real_poll(&none, 0, 1); }
        if (vviol_count() || vnow() - t0 > 8) break;
    }
    if (t.kind == 2) {
        vobs("connect_failures_observed", 1);
        if (t.err != c->ferrno && !vviol_count() && (c->fcall != 0 || A.plan.fail_fired)) tv(c, &A, "connect-errno", "establishment failed with errno %d (%s), expected %d (%s)", t.err, strerror(t.err), c->ferrno, strerror(c->ferrno));
        if (c->fcall == 1 && vnow() - t0 > 3.0) tv(c, &A, "connect-timeout-late", "tcp.connect_timeout 0.12 s but the failure surfaced after %.2f s", vnow() - t0);
        char tup[100]; snprintf(tup, sizeof tup, "connect|%s|%d|%d", vtp_name[c->tp], c->fcall, t.err); vsig_str(tup);
    } else if (t.kind == 0 && c->fcall == 1 && !vviol_count()) tv(c, &A, "connect-timeout-missing", "no answer from the peer, tcp.connect_timeout 0.12 s, yet nothing reported after %.1f s", vnow() - t0);
    vobs("terminal_probe_calls", t.ops_after);
out:
    if (A.s) vx_close(&A);
    if (have_na) vnet_noanswer_close(&na);
    veng_ep_free(&A);
}

static void one_case(long idx, void *arg)
{
    (void)arg;
    cur_case = idx;
    uint64_t ss = vsub_seed(va.seed, (uint64_t)va.worker, (uint64_t)idx);
    vrng r = { ss };
    struct ccase c; gen_case(&c, idx, &r);
    case_json(&c, idx, ss);
    VLOG("case %s", ctx);
    switch (c.kind) {
    case K_FAULT: run_fault(&c, idx, &r); break;
    case K_CUT: run_cut(&c, idx, &r); break;
    case K_ORDERLY: run_orderly(&c, idx, &r); break;
    default: run_connect(&c, idx, &r); break;
    }
    char cl[100]; snprintf(cl, sizeof cl, "%s/%s", kind_name[c.kind], vtp_name[c.tp]); vclass(cl);
    if (idx < 2) vsample(ctx);
    vcase_done(true);
}

int main(int argc, char **argv)
{
    vparse_args(argc, argv);
    signal(SIGPIPE, SIG_IGN);
    veng_global_init();
    for (long i = 0; i < va.cases; i++) {
        if (va.only >= 0 && i != va.only) continue;
        if (va.only >= 0) { one_case(i, NULL); continue; }
        vfork_case(i, one_case, NULL, 60, "C06");
        if (vstop_early()) break;
    }
    vsummary(true);
    return 0;
}
