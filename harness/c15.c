/* c15.c - threads using different sockets do not interfere (C15).
 *
 * ThreadSanitizer build of the library and of this workload.  8-16 threads,
 * each owning its sockets, concurrently create servers and connections on
 * every transport, pass traffic (verified), read attributes, validate
 * addresses, close; bursts of more than 100 sockets per thread create and
 * destroy the shared always-readable eventfds; TLS with shared and with
 * per-thread credentials exercises hit, miss and last-put of the context
 * cache; sockets are handed from one thread to another through a
 * mutex-protected queue.  Any ThreadSanitizer report with a frame in the
 * repository counts (reports are collected by the driver from the TSan logs).
 */
#include "vcommon.h"
#include "vpki.h"

#include <sys/stat.h>
#include <xcm.h>
#include <xcm_attr.h>
#include <xcm_attr_map.h>

#include <poll.h>
#include <pthread.h>
#include <signal.h>
#include <xcm_addr.h>
#include "xcmc.h"

extern void log_console_conf(bool enabled);

/* no interposition shim in this executable: nothing but the library and this workload is instrumented and judged */
enum vtp { TP_UX, TP_UXF, TP_TCP, TP_TLS, TP_UTLS_UX, TP_BTCP, TP_BTLS };
static bool vtp_is_bytestream(enum vtp t) { return t == TP_BTCP || t == TP_BTLS; }
static bool vtp_is_tls(enum vtp t) { return t == TP_TLS || t == TP_BTLS; }
static struct vpki_ent *veng_ca, *veng_leaf;
static char ctl_dir15[700]; static bool ctl_on;
static void local_init(void)
{
    char d[600], p[700];
    snprintf(d, sizeof d, "%s/tls", va.dir);
    struct vpki_opts o; vpki_opts_default(&o); o.is_ca = true; veng_ca = vpki_make("verif-root", NULL, &o);
    vpki_opts_default(&o); o.eku = VPKI_EKU_BOTH; veng_leaf = vpki_make("verif-peer", veng_ca, &o);
    vpki_write_dir(d, veng_leaf->cert_pem, veng_leaf->key_pem, veng_ca->cert_pem, NULL);
    setenv("XCM_TLS_CERT", d, 1);
    snprintf(p, sizeof p, "%s/no-such-ctl-dir", va.dir); setenv("XCM_CTL", p, 1);
    snprintf(ctl_dir15, sizeof ctl_dir15, "%s/ctl15", va.dir); mkdir(ctl_dir15, 0700);
    snprintf(p, sizeof p, "%s/uxf", va.dir); mkdir(p, 0700);
}

static long cur_case;
static char ctx[600];
static int nthreads;
static uint64_t case_seed;
static long in_create, overlap_create, in_tls, overlap_tls;     /* touched with atomics only: the monitor must not be the race */

struct handoff { struct xcm_socket *cl, *ac, *sv; bool bytestream; };
#define QCAP 64
static struct handoff q[QCAP]; static int qn; static pthread_mutex_t qmu = PTHREAD_MUTEX_INITIALIZER;

static const char *proto(enum vtp tp) { return tp == TP_UX ? "ux" : tp == TP_UXF ? "uxf" : tp == TP_TCP ? "tcp" : tp == TP_TLS ? "tls" : tp == TP_BTCP ? "btcp" : tp == TP_BTLS ? "btls" : "utls"; }

static void tv(const char *rule, const char *what, const char *fmt, ...)
{
    char msg[700]; va_list ap; va_start(ap, fmt); vsnprintf(msg, sizeof msg, fmt, ap); va_end(ap);
    char key[160]; snprintf(key, sizeof key, "threads:%s:%s", rule, what);
    static pthread_mutex_t mu = PTHREAD_MUTEX_INITIALIZER;
    pthread_mutex_lock(&mu);
    vviol(cur_case, "threads", key, NULL, "%s; %s", msg, ctx);
    pthread_mutex_unlock(&mu);
}

struct tstat { long conns, msgs, attrs, bursts, handed, received_hand, tls_shared, tls_private, names, ctl_sessions, tls_failures; };

static bool make_pair(enum vtp tp, int tid, int n, struct xcm_attr_map *extra, struct handoff *h)
{
    memset(h, 0, sizeof *h); h->bytestream = vtp_is_bytestream(tp);
    char addr[700];
    switch (tp) {
    case TP_UX: snprintf(addr, sizeof addr, "ux:c15-%d-%d-%d", (int)getpid(), tid, n); break;
    case TP_UXF: snprintf(addr, sizeof addr, "uxf:%s/uxf/c15-%d-%d-%d", va.dir, (int)getpid(), tid, n); break;
    default: snprintf(addr, sizeof addr, "%s:127.0.0.1:0", proto(tp)); break;
    }
    struct xcm_attr_map *m = xcm_attr_map_create(); xcm_attr_map_add_bool(m, "xcm.blocking", false);
    if (h->bytestream) xcm_attr_map_add_str(m, "xcm.service", "bytestream");
    if (extra) xcm_attr_map_add_all(m, extra);
    if (__atomic_add_fetch(&in_create, 1, __ATOMIC_RELAXED) > 1) __atomic_add_fetch(&overlap_create, 1, __ATOMIC_RELAXED);
    h->sv = xcm_server_a(addr, m);
    if (h->sv) h->cl = xcm_connect_a(xcm_local_addr(h->sv), m);
    __atomic_sub_fetch(&in_create, 1, __ATOMIC_RELAXED);
    xcm_attr_map_destroy(m);
    if (!h->sv || !h->cl) goto fail;
    for (int i = 0; i < 20000; i++) {
        if (!h->ac) { h->ac = xcm_accept(h->sv); if (!h->ac && errno != EAGAIN) goto fail; }
        int f1 = xcm_finish(h->cl); int e1 = errno; int f2 = h->ac ? xcm_finish(h->ac) : -1; int e2 = errno;
        if (f1 == 0 && f2 == 0) return true;
        if ((f1 < 0 && e1 != EAGAIN) || (h->ac && f2 < 0 && e2 != EAGAIN)) goto fail;
        if (i > 50) { struct pollfd none; poll(&none, 0, 1); }
    }
fail:
    if (h->cl) xcm_close(h->cl); if (h->ac) xcm_close(h->ac); if (h->sv) xcm_close(h->sv);
    memset(h, 0, sizeof *h);
    return false;
}

static bool traffic(struct handoff *h, unsigned tag, int n)
{
    unsigned char m[300], r[400];
    for (int k = 0; k < n; k++) {
        struct xcm_socket *tx = k & 1 ? h->ac : h->cl, *rx = k & 1 ? h->cl : h->ac;
        for (unsigned i = 0; i < sizeof m; i++) m[i] = (unsigned char)(tag * 7 + (unsigned)k * 13 + i);
        size_t sent = 0, got = 0;
        for (int i = 0; i < 20000 && got < sizeof m; i++) {
            if (sent < sizeof m) { int rc = xcm_send(tx, m + sent, sizeof m - sent); if (rc >= 0) sent += h->bytestream ? (size_t)rc : sizeof m; else if (errno != EAGAIN) return false; }
            xcm_finish(tx);
            int rc = xcm_receive(rx, r + got, sizeof r - got); if (rc > 0) got += (size_t)rc; else if (rc == 0 || errno != EAGAIN) return false;
            if (i > 50) { struct pollfd none; poll(&none, 0, 1); }
        }
        if (got != sizeof m || memcmp(m, r, sizeof m)) return false;
    }
    return true;
}

static void attr_cb(const char *name, enum xcm_attr_type type, const void *value, size_t len, void *data) { (void)name; (void)type; (void)value; (void)len; (*(long *)data)++; }

static void close_pair(struct handoff *h) { if (h->cl) xcm_close(h->cl); if (h->ac) xcm_close(h->ac); if (h->sv) xcm_close(h->sv); memset(h, 0, sizeof *h); }

struct targ { int tid; struct tstat st; struct vpki_ent *own; };

struct ctlq { int n; pid_t pid[8]; int64_t ref[8]; };
static void list_cb(pid_t creator_pid, int64_t sock_ref, void *data) { struct ctlq *c = data; if (c->n < 8) { c->pid[c->n] = creator_pid; c->ref[c->n] = sock_ref; c->n++; } }
static void ctl_attr_cb(const char *name, enum xcm_attr_type type, void *value, size_t len, void *data) { (void)name; (void)type; (void)value; (void)len; (*(long *)data)++; }

static void *worker(void *arg)
{
    struct targ *t = arg; vrng r = { vmix(case_seed ^ (uint64_t)(t->tid * 7919 + 1)) };
    static const enum vtp tps[] = { TP_UX, TP_UXF, TP_TCP, TP_TLS, TP_UTLS_UX, TP_BTCP, TP_BTLS, TP_TLS, TP_BTLS };
    int iters = va.thorough ? 30 : 12;
    struct xcm_attr_map *own = xcm_attr_map_create();
    xcm_attr_map_add_bin(own, "tls.cert", t->own->cert_pem, strlen(t->own->cert_pem)); xcm_attr_map_add_bin(own, "tls.key", t->own->key_pem, strlen(t->own->key_pem)); xcm_attr_map_add_bin(own, "tls.tc", veng_ca->cert_pem, strlen(veng_ca->cert_pem));
    for (int it = 0; it < iters; it++) {
        unsigned a = vrnd_n(&r, 100);
        if (a < 55) {
            enum vtp tp = tps[vrnd_n(&r, 9)];
            bool tls = vtp_is_tls(tp); bool priv = tls && vrnd_p(&r, 50);
            if (tls && __atomic_add_fetch(&in_tls, 1, __ATOMIC_RELAXED) > 1) __atomic_add_fetch(&overlap_tls, 1, __ATOMIC_RELAXED);
            struct handoff h; bool ok = make_pair(tp, t->tid, it, priv ? own : NULL, &h);
            if (tls) { __atomic_sub_fetch(&in_tls, 1, __ATOMIC_RELAXED); if (priv) t->st.tls_private++; else t->st.tls_shared++; }
            if (!ok) { tv("connection-failed", proto(tp), "thread %d could not establish a %s connection pair", t->tid, proto(tp)); continue; }
            t->st.conns++;
            if (!traffic(&h, (unsigned)(t->tid * 100 + it), 4)) tv("delivery", proto(tp), "thread %d: a message on its own %s connection was not delivered intact", t->tid, proto(tp)); else t->st.msgs += 4;
            long na = 0; xcm_attr_get_all(h.cl, attr_cb, &na); xcm_attr_get_all(h.sv, attr_cb, &na); t->st.attrs += na;
            if (vrnd_p(&r, 30)) {
                /* hand the connection to whoever takes it next */
                pthread_mutex_lock(&qmu); bool put = qn < QCAP; if (put) q[qn++] = h; pthread_mutex_unlock(&qmu);
                if (put) t->st.handed++; else close_pair(&h);
            } else close_pair(&h);
        } else if (a < 70) {
            struct handoff h; bool have = false;
            pthread_mutex_lock(&qmu); if (qn > 0) { h = q[--qn]; have = true; } pthread_mutex_unlock(&qmu);
            if (have) { if (!traffic(&h, (unsigned)(t->tid * 100 + it + 50), 2)) tv("delivery-after-handoff", "queue", "thread %d: a connection created by another thread did not deliver intact", t->tid); else { t->st.msgs += 2; t->st.received_hand++; } close_pair(&h); }
        } else if (a < 78) {
            /* more than 100 sockets: the pool of shared eventfds grows and shrinks */
            struct xcm_socket *s[110]; int n = 0; struct xcm_attr_map *m = xcm_attr_map_create(); xcm_attr_map_add_bool(m, "xcm.blocking", false);
            for (int i = 0; i < 110; i++) { char ad[64]; snprintf(ad, sizeof ad, "tcp:127.0.0.1:0"); s[n] = xcm_server_a(ad, m); if (s[n]) { struct xcm_socket *c = xcm_connect_a(xcm_local_addr(s[n]), m); if (c) xcm_close(c); n++; } }
            xcm_attr_map_destroy(m);
            for (int i = 0; i < n; i++) xcm_close(s[i]);
            t->st.bursts++;
        } else if (a < 90) {
            /* address helpers and validation */
            struct xcm_addr_host host; uint16_t port; char buf[128];
            xcm_addr_parse_tcp("tcp:192.168.1.1:4711", &host, &port); xcm_addr_make_tls(&host, port, buf, sizeof buf); xcm_addr_parse_utls("utls:[::1]:99", &host, &port);
            xcm_addr_is_valid("tls:some.name.example:1"); xcm_addr_is_valid("ux:x"); xcm_addr_is_valid("nonsense");
            struct xcm_attr_map *m = xcm_attr_map_create(); xcm_attr_map_add_str(m, "a", "b"); struct xcm_attr_map *c = xcm_attr_map_clone(m); xcm_attr_map_destroy(m); xcm_attr_map_destroy(c);
        } else if (a < 93) {
            /* a host name: every thread runs its own resolver channel (the name is in the hosts file; the port refuses) */
            struct xcm_attr_map *m = xcm_attr_map_create(); xcm_attr_map_add_bool(m, "xcm.blocking", false); xcm_attr_map_add_double(m, "dns.timeout", 0.3);
            struct xcm_socket *x = xcm_connect_a(vrnd_p(&r, 50) ? "tcp:localhost:1" : "tls:localhost:1", m); xcm_attr_map_destroy(m);
            for (int i = 0; x && i < 60; i++) { if (xcm_finish(x) == 0 || errno != EAGAIN) break; struct pollfd none; poll(&none, 0, 1); }
            if (x) xcm_close(x);
            t->st.names++;
        } else if (a < 96 && ctl_on && t->tid < 2) {
            /* a control client inside the process: looks at sockets that belong to other threads, through their control sockets only */
            struct ctlq cq = { 0 }; xcmc_list(list_cb, &cq);
            for (int i = 0; i < cq.n && i < 2; i++) { struct xcmc_session *ss = xcmc_open(cq.pid[i], cq.ref[i]); if (ss) { long na = 0; xcmc_attr_get_all(ss, ctl_attr_cb, &na); xcmc_close(ss); t->st.ctl_sessions++; } }
        } else if (a < 97 && t->tid == 0) { log_console_conf(vrnd_p(&r, 50)); }
        else if (a < 99) {
            /* a TLS handshake that fails on this thread (the client trusts nobody who signed the server's certificate): what the thread does
             * afterwards - its own connections, connections handed over to it - must be unaffected */
            struct xcm_attr_map *m = xcm_attr_map_create(); xcm_attr_map_add_bool(m, "xcm.blocking", false);
            struct xcm_socket *sv = xcm_server_a("tls:127.0.0.1:0", m), *cl = NULL, *ac = NULL;
            if (sv) { xcm_attr_map_add_bin(m, "tls.tc", t->own->cert_pem, strlen(t->own->cert_pem)); cl = xcm_connect_a(xcm_local_addr(sv), m); }
            xcm_attr_map_destroy(m);
            bool failed = false;
            for (int i = 0; cl && i < 3000 && !failed; i++) {
                if (!ac) ac = xcm_accept(sv);
                if (xcm_finish(cl) < 0 && errno != EAGAIN) failed = true;
                if (ac && xcm_finish(ac) < 0 && errno != EAGAIN) failed = true;
                if (i > 30) { struct pollfd none; poll(&none, 0, 1); }
            }
            if (failed) t->st.tls_failures++;
            if (cl) xcm_close(cl); if (ac) xcm_close(ac); if (sv) xcm_close(sv);
            /* straight afterwards the thread takes over a connection somebody else made */
            struct handoff h; bool have = false;
            pthread_mutex_lock(&qmu); if (qn > 0) { h = q[--qn]; have = true; } pthread_mutex_unlock(&qmu);
            if (have) {
                unsigned char probe[32]; int pr = xcm_receive(h.cl, probe, sizeof probe);         /* nothing has been sent: EAGAIN is the only right answer */
                if (!(pr < 0 && errno == EAGAIN)) tv("idle-receive-after-handoff", "queue", "thread %d, after a failed TLS handshake of its own: xcm_receive on an idle connection handed over by another thread returned %d errno %d", t->tid, pr, errno);
                else if (!traffic(&h, (unsigned)(t->tid * 100 + it + 70), 2)) tv("delivery-after-handoff", "queue", "thread %d (after a failed TLS handshake of its own): a connection created by another thread did not deliver intact", t->tid);
                else { t->st.msgs += 2; t->st.received_hand++; }
                close_pair(&h);
            }
        }
        else { struct xcm_socket *x = xcm_connect("tcp:127.0.0.1:1", XCM_NONBLOCK); if (x) xcm_close(x); }
    }
    xcm_attr_map_destroy(own);
    return NULL;
}

static void one_case(long idx)
{
    cur_case = idx;
    case_seed = vsub_seed(va.seed, (uint64_t)va.worker, (uint64_t)idx);
    nthreads = 8 + (int)(case_seed % 9);
    snprintf(ctx, sizeof ctx, "{\"case\":%ld,\"sub_seed\":\"%" PRIu64 "\",\"threads\":%d}", idx, case_seed, nthreads);
    VLOG("case %s", ctx);
    pthread_t th[16]; struct targ ta[16]; memset(ta, 0, sizeof ta);
    for (int i = 0; i < nthreads; i++) { ta[i].tid = i; struct vpki_opts o; vpki_opts_default(&o); o.eku = VPKI_EKU_BOTH; char cn[32]; snprintf(cn, sizeof cn, "thread-%d", i); ta[i].own = vpki_make(cn, veng_ca, &o); }
    __atomic_store_n(&overlap_create, 0, __ATOMIC_RELAXED); __atomic_store_n(&overlap_tls, 0, __ATOMIC_RELAXED);
    /* every other case runs with the control interface on (the environment is only changed while no thread runs) */
    ctl_on = (idx % 2) == 1;
    { char np[800]; snprintf(np, sizeof np, "%s/no-such-ctl-dir", va.dir); setenv("XCM_CTL", ctl_on ? ctl_dir15 : np, 1); }
    for (int i = 0; i < nthreads; i++) pthread_create(&th[i], NULL, worker, &ta[i]);
    for (int i = 0; i < nthreads; i++) pthread_join(th[i], NULL);
    log_console_conf(false);
    pthread_mutex_lock(&qmu); while (qn > 0) { struct handoff h = q[--qn]; close_pair(&h); } pthread_mutex_unlock(&qmu);
    struct tstat s = { 0 };
    for (int i = 0; i < nthreads; i++) { s.conns += ta[i].st.conns; s.msgs += ta[i].st.msgs; s.attrs += ta[i].st.attrs; s.bursts += ta[i].st.bursts; s.handed += ta[i].st.handed; s.received_hand += ta[i].st.received_hand; s.tls_shared += ta[i].st.tls_shared; s.tls_private += ta[i].st.tls_private; vpki_free(ta[i].own); }
    vobs("threads_run", nthreads); vobs("connections", s.conns); vobs("messages_verified", s.msgs); vobs("attribute_reads", s.attrs); vobs("socket_bursts", s.bursts);
    long names = 0, ctls = 0; for (int i = 0; i < nthreads; i++) { names += ta[i].st.names; ctls += ta[i].st.ctl_sessions; }
    { long tf = 0; for (int i = 0; i < nthreads; i++) tf += ta[i].st.tls_failures; vobs("failed_tls_handshakes_on_worker_threads", tf); }
    vobs("host_name_connects", names); vobs("in_process_control_sessions", ctls); if (ctl_on) vobs("cases_with_control_interface", 1);
    vobs("sockets_handed_over", s.received_hand); vobs("tls_pairs_shared_credentials", s.tls_shared); vobs("tls_pairs_private_credentials", s.tls_private);
    long oc = __atomic_load_n(&overlap_create, __ATOMIC_RELAXED), ot = __atomic_load_n(&overlap_tls, __ATOMIC_RELAXED);
    vobs("overlapping_creations", oc); vobs("overlapping_tls_creations", ot);
    char sg[64]; snprintf(sg, sizeof sg, "threads|%d|ctl%d", nthreads, ctl_on); vsig_str(sg);
    if (idx < 2) vsample(ctx);
    vcase_done(oc > 0);
}

int main(int argc, char **argv)
{
    vparse_args(argc, argv);
    signal(SIGPIPE, SIG_IGN);
    local_init();
    if (!freopen("/dev/null", "w", stderr)) {}
    for (long i = 0; i < va.cases; i++) {
        if (va.only >= 0 && i != va.only) continue;
        one_case(i);
        if (vviol_count() > 0) break;
    }
    vsummary(true);
    return 0;
}
