/* c08.c - no resource leaks, stray closes or aborts on any lifecycle path (C08).
 *
 * API scenarios (server / connect / accept / traffic / close on every
 * transport, with DNS names, xcm.local_addr, TLS credentials by value, the
 * control interface enabled, refused connects, addresses in use, invalid
 * attributes) are first run once to count the resource-creating system calls
 * they make; then once per (call, index, errno): that call fails.  After every
 * run, with all sockets closed: the descriptor table must equal the baseline,
 * LeakSanitizer must be silent at exit, UXF and control-interface files must
 * be gone, XCM must never have closed or altered a descriptor it did not
 * create (decoys are planted in freed slots), and the process must not have
 * died.  Further families: real descriptor exhaustion (RLIMIT_NOFILE sweep),
 * the eventfd pool (bursts of sockets), fork + xcm_cleanup in the child at
 * every step of a scenario.
 */
#include "vstate.h"
#include "vctl.h"

#include <dirent.h>
#include <fcntl.h>
#include <poll.h>
#include <signal.h>
#include <sys/resource.h>
#include <sys/timerfd.h>
#include <sys/stat.h>
#include <sys/wait.h>

extern size_t __sanitizer_get_current_allocated_bytes(void);
static long cur_case;
static char ctx[800];
static size_t heap_base;
static struct vs_plan plan;            /* one plan for the whole scenario: call counters are global */
static char uxf_dir[600], ctl_dir[600];

#define SCX(nm, epn) struct vs_scope _sc = { .active = true, .nonblocking = true, .api = nm, .ep = epn, .plan = &plan }; vs_enter(&_sc)

enum fam { F_INJECT, F_RLIMIT, F_BURST, F_FORK, F_PLAIN };
static const char *const fam_name[] = { "inject", "rlimit", "burst", "fork-cleanup", "plain" };
enum flav { FL_PLAIN, FL_DNS, FL_LOCAL_ADDR, FL_TLS_BY_VALUE, FL_BAD_ATTR, FL_REFUSED, FL_ADDR_IN_USE, FL_CTL, FL_ACCEPT_EMPTY, FL_BLOCKING_ACCEPT, FL_CONNECTING, FL_CTL_LONG, FL_ACCEPT_BLOCKING, FL_BY_NAME, FL_N };
static const char *const flav_name[] = { "plain", "dns-name", "local-addr", "tls-by-value", "bad-attr", "refused", "addr-in-use", "ctl", "accept-empty", "blocking-accept", "connect-pending", "ctl-long-dir", "accept-map-blocking", "addresses-by-name" };

struct scn { enum vtp tp; enum flav fl; };
struct site { int scn; int call; int idx; int err; };

static const enum vtp tps[] = { TP_UX, TP_UXF, TP_TCP, TP_TLS, TP_UTLS_UX, TP_BTCP, TP_BTLS };
#define NTP 7
static struct scn scns[NTP * FL_N]; static int n_scn;

static bool flav_ok(enum vtp tp, enum flav fl)
{
    bool tcpb = vtp_is_tcp_based(tp);    /* utls counts: it has a TLS half */
    switch (fl) {
    case FL_DNS: case FL_LOCAL_ADDR: case FL_CONNECTING: case FL_BY_NAME: return tcpb && tp != TP_UTLS_UX;
    case FL_TLS_BY_VALUE: return vtp_is_tls(tp) || tp == TP_UTLS_UX;
    default: return true;
    }
}

static const char *proto(enum vtp tp)
{ return tp == TP_UX ? "ux" : tp == TP_UXF ? "uxf" : tp == TP_TCP ? "tcp" : tp == TP_TLS ? "tls" : tp == TP_BTCP ? "btcp" : tp == TP_BTLS ? "btls" : "utls"; }

/* ---- descriptor table ---- */
struct fdtab { int n; struct { int fd; char tgt[96]; } e[512]; };
static void fdtab_take(struct fdtab *t)
{
    t->n = 0;
    DIR *d = opendir("/proc/self/fd");
    if (!d) return;
    int dfd = dirfd(d);
    struct dirent *de;
    while ((de = readdir(d)) && t->n < 512) {
        if (de->d_name[0] == '.') continue;
        int fd = atoi(de->d_name); if (fd == dfd) continue;
        char p[64]; snprintf(p, sizeof p, "/proc/self/fd/%d", fd);
        ssize_t l = readlink(p, t->e[t->n].tgt, sizeof t->e[0].tgt - 1); if (l < 0) l = 0; t->e[t->n].tgt[l] = 0;
        t->e[t->n].fd = fd; t->n++;
    }
    closedir(d);
}
static bool fdtab_has(const struct fdtab *t, int fd) { for (int i = 0; i < t->n; i++) if (t->e[i].fd == fd) return true; return false; }

/* ---- decoys: descriptors the harness owns, planted in slots XCM has just freed ---- */
static int decoys[64]; static int n_decoys; static ino_t decoy_ino;
static void plant_decoy(void)
{
    if (n_decoys >= 64) return;
    int fd = open("/dev/null", O_RDONLY);
    if (fd < 0) return;
    vs_mark_harness_fd(fd);
    struct stat st; if (fstat(fd, &st) == 0) decoy_ino = st.st_ino;
    decoys[n_decoys++] = fd;
}
static int check_decoys(void)
{
    int bad = -1;
    for (int i = 0; i < n_decoys; i++) { struct stat st; if (fstat(decoys[i], &st) < 0 || st.st_ino != decoy_ino) bad = decoys[i]; }
    return bad;
}
static void close_decoys(void) { for (int i = 0; i < n_decoys; i++) close(decoys[i]); n_decoys = 0; }

/* ---- scoped API (all tolerant of failure) ---- */
static struct xcm_socket *S_server(const char *addr, struct xcm_attr_map *m)
{ SCX("xcm_server_a", 2); struct xcm_socket *s = xcm_server_a(addr, m); int se = errno; vs_leave(); if (!s) { vobs("api_failures", 1); plant_decoy(); } errno = se; return s; }
static struct xcm_socket *S_connect(const char *addr, struct xcm_attr_map *m)
{ SCX("xcm_connect_a", 0); struct xcm_socket *s = xcm_connect_a(addr, m); int se = errno; vs_leave(); if (!s) { vobs("api_failures", 1); plant_decoy(); } errno = se; return s; }
static struct xcm_socket *S_accept(struct xcm_socket *sv, struct xcm_attr_map *m)
{ SCX("xcm_accept_a", 1); struct xcm_socket *s = xcm_accept_a(sv, m); int se = errno; vs_leave(); if (!s && se != EAGAIN) { vobs("api_failures", 1); plant_decoy(); } errno = se; return s; }
static int S_finish(struct xcm_socket *s, int ep) { SCX("xcm_finish", ep); int rc = xcm_finish(s); int se = errno; vs_leave(); errno = se; return rc; }
static int S_send(struct xcm_socket *s, int ep, const void *b, size_t n) { SCX("xcm_send", ep); int rc = xcm_send(s, b, n); int se = errno; vs_leave(); errno = se; return rc; }
static int S_receive(struct xcm_socket *s, int ep, void *b, size_t n) { SCX("xcm_receive", ep); int rc = xcm_receive(s, b, n); int se = errno; vs_leave(); errno = se; return rc; }
static void S_close(struct xcm_socket **s, int ep) { if (*s) { SCX("xcm_close", ep); xcm_close(*s); vs_leave(); *s = NULL; } }
static void S_cleanup(struct xcm_socket **s, int ep) { if (*s) { SCX("xcm_cleanup", ep); xcm_cleanup(*s); vs_leave(); *s = NULL; } }

static void napms(int ms) { struct pollfd none; vs_real_poll(&none, 0, ms); }

/* one message a -> b; returns true if delivered intact */
static bool S_msg(struct xcm_socket *a, int epa, struct xcm_socket *b, int epb, bool bytestream, unsigned tag)
{
    unsigned char m[200], r[300]; for (unsigned i = 0; i < sizeof m; i++) m[i] = (unsigned char)(tag * 31 + i);
    size_t sent = 0, got = 0;
    for (int i = 0; i < 3000 && (sent < sizeof m || got < sizeof m); i++) {
        if (sent < sizeof m) { int rc = S_send(a, epa, m + sent, sizeof m - sent); if (rc >= 0) sent += bytestream ? (size_t)rc : sizeof m; else if (errno != EAGAIN) return false; }
        S_finish(a, epa);
        int rc = S_receive(b, epb, r + got, sizeof r - got);
        if (rc > 0) got += (size_t)rc; else if (rc == 0 || errno != EAGAIN) return false;
        if (i > 20) napms(1);
    }
    return got == sizeof m && !memcmp(m, r, sizeof m);
}

struct live { struct xcm_socket *sv, *cl, *ac; bool ready; bool bytestream; char uxf_path[700]; };

/* hook called between the steps of a scenario (fork family) */
static int step_no; static int fork_at_step = -1;
static void at_step(struct live *lv);


/* blocking xcm_accept with wake-ups that bring no connection: control clients attach while the server waits, and the injection family makes
 * accept4 report EAGAIN after the wake-up (a connection that was reset before it could be accepted).  The client lives in a helper process
 * and connects a little later.  A safety alarm interrupts the wait should the helper never get through. */
static void on_alarm(int sig) { (void)sig; }
static void blocking_accept(const struct scn *sc, vrng *r, struct live *lv, const char *caddr, struct xcm_attr_map *am)
{
    int pp[2]; if (pipe(pp) < 0) return;
    vs_mark_harness_fd(pp[0]); vs_mark_harness_fd(pp[1]);
    int delay = 15 + (int)vrnd_n(r, 50);
    char ca[800]; snprintf(ca, sizeof ca, "%s", caddr); if (sc->tp == TP_UTLS_UX && vrnd_p(r, 50)) { const char *q = strchr(caddr, ':'); snprintf(ca, sizeof ca, "tls:%s", q + 1); }
    fflush(stdout); fflush(stderr);
    pid_t h = fork();
    if (h == 0) {
        close(pp[1]);
        struct rlimit rl; if (getrlimit(RLIMIT_NOFILE, &rl) == 0) { rl.rlim_cur = rl.rlim_max < 4096 ? rl.rlim_max : 4096; setrlimit(RLIMIT_NOFILE, &rl); }
        { char np[700]; snprintf(np, sizeof np, "%s/no-ctl", va.dir); setenv("XCM_CTL", np, 1); }     /* the helper's own sockets leave no control files behind */
        napms(delay);
        struct xcm_attr_map *m = xcm_attr_map_create(); if (lv->bytestream) xcm_attr_map_add_str(m, "xcm.service", "bytestream");
        struct xcm_socket *x = NULL; for (int t = 0; t < 40 && !x; t++) { x = xcm_connect_a(ca, m); if (!x) napms(25); }
        char b; if (read(pp[0], &b, 1) < 0) {}
        _exit(0);
    }
    close(pp[0]);
    int cfd[4]; int ncfd = 0;
    if (getenv("XCM_CTL") && !strcmp(getenv("XCM_CTL"), ctl_dir)) ncfd = vctl_connect_all(ctl_dir, cfd, NULL, 1 + (int)vrnd_n(r, 3));
    if (ncfd) vobs("blocking_accepts_with_control_clients_attaching", 1);
    struct sigaction sa = { 0 }, osa; sa.sa_handler = on_alarm; sigaction(SIGALRM, &sa, &osa);
    { struct vs_scope bsc = { .active = true, .nonblocking = false, .api = "xcm_set_blocking", .ep = 2, .plan = &plan }; vs_enter(&bsc); xcm_set_blocking(lv->sv, true); vs_leave(); }
    alarm(20);
    { struct vs_scope bsc = { .active = true, .nonblocking = false, .api = "xcm_accept_a", .ep = 1, .plan = &plan }; vs_enter(&bsc); lv->ac = xcm_accept_a(lv->sv, am); int se = errno; vs_leave();
      if (!lv->ac) { vobs("api_failures", 1); plant_decoy(); if (se == EINTR) vobs("blocking_accept_ended_by_safety_alarm", 1); } else vobs("blocking_accepts_returned_a_connection", 1); }
    alarm(0); sigaction(SIGALRM, &osa, NULL);
    { struct vs_scope bsc = { .active = true, .nonblocking = false, .api = "xcm_set_blocking", .ep = 2, .plan = &plan }; vs_enter(&bsc); xcm_set_blocking(lv->sv, false); if (lv->ac) xcm_set_blocking(lv->ac, false); vs_leave(); }
    /* let the helper's connect complete (TLS handshake), exchange nothing */
    for (int i = 0; lv->ac && i < 400; i++) { if (S_finish(lv->ac, 1) == 0 || errno != EAGAIN) break; napms(1); }
    for (int i = 0; i < ncfd; i++) close(cfd[i]);
    close(pp[1]);
    napms(2); kill(h, SIGKILL);       /* it may still sit in a connect nobody will answer */
    int st; waitpid(h, &st, 0);
}

static void scenario(const struct scn *sc, vrng *r, struct live *lv_out)
{
    struct live lv; memset(&lv, 0, sizeof lv);
    lv.bytestream = vtp_is_bytestream(sc->tp);
    char saddr[800], caddr[800];
    static int ctr; ctr++;
    const char *pr = proto(sc->tp);
    struct xcm_attr_map *sm = xcm_attr_map_create(), *cm = xcm_attr_map_create(), *am = xcm_attr_map_create();
    xcm_attr_map_add_bool(sm, "xcm.blocking", false); xcm_attr_map_add_bool(cm, "xcm.blocking", false);
    if (lv.bytestream) { xcm_attr_map_add_str(sm, "xcm.service", "bytestream"); xcm_attr_map_add_str(cm, "xcm.service", "bytestream"); }
    switch (sc->tp) {
    case TP_UX: snprintf(saddr, sizeof saddr, "ux:c08-%d-%d-%d", (int)getpid(), va.worker, ctr); break;
    case TP_UXF: snprintf(lv.uxf_path, sizeof lv.uxf_path, "%s/s%d-%d", uxf_dir, (int)getpid(), ctr); snprintf(saddr, sizeof saddr, "uxf:%s", lv.uxf_path); break;
    default: snprintf(saddr, sizeof saddr, "%s:127.0.0.1:0", pr); break;
    }
    if (sc->fl == FL_BY_NAME) {
        /* the server's address and the client's local address are host names: both are resolved synchronously, the resolver takes a few ms */
        struct vdns_plan dp; memset(&dp, 0, sizeof dp); snprintf(dp.name, sizeof dp.name, "srv.c08.verif.test"); dp.deliver = VDNS_AFTER_MS; dp.after = 3 + (int)vrnd_n(r, 6); vdns_addr4(&dp.addrs[dp.n++], "127.0.0.1");
        struct vdns_plan lp = dp; snprintf(lp.name, sizeof lp.name, "loc.c08.verif.test");
        vdns_enable(true); vdns_set(&dp); vdns_set(&lp);
        snprintf(saddr, sizeof saddr, "%s:srv.c08.verif.test:0", pr);
        char la2[96]; snprintf(la2, sizeof la2, "%s:loc.c08.verif.test:0", sc->tp == TP_BTCP ? "btcp" : sc->tp == TP_BTLS ? "btls" : sc->tp == TP_TCP ? "tcp" : "tls");
        xcm_attr_map_add_str(cm, "xcm.local_addr", la2);
    }
    int blocker = -1; struct vnet_noanswer na; bool have_na = false; na.lfd = -1; na.ncfd = 0;
    if (sc->fl == FL_ADDR_IN_USE && sc->tp != TP_UX && sc->tp != TP_UXF) {
        const char *ips[1] = { "127.0.0.1" }; int port = vnet_pick_port(ips, 1);
        blocker = vnet_listen("127.0.0.1", port, 1);
        snprintf(saddr, sizeof saddr, "%s:127.0.0.1:%d", pr, port);
    }
    if (sc->fl == FL_TLS_BY_VALUE) {
        xcm_attr_map_add_bin(sm, "tls.cert", veng_leaf->cert_pem, strlen(veng_leaf->cert_pem)); xcm_attr_map_add_bin(sm, "tls.key", veng_leaf->key_pem, strlen(veng_leaf->key_pem)); xcm_attr_map_add_bin(sm, "tls.tc", veng_ca->cert_pem, strlen(veng_ca->cert_pem));
        xcm_attr_map_add_bin(cm, "tls.cert", veng_leaf->cert_pem, strlen(veng_leaf->cert_pem)); xcm_attr_map_add_bin(cm, "tls.key", veng_leaf->key_pem, strlen(veng_leaf->key_pem)); xcm_attr_map_add_bin(cm, "tls.tc", veng_ca->cert_pem, strlen(veng_ca->cert_pem));
    }
    if (sc->fl == FL_ACCEPT_BLOCKING) xcm_attr_map_add_bool(am, "xcm.blocking", true);      /* the accepted connection is to be a blocking one; the server itself stays non-blocking */
    if (sc->fl == FL_BAD_ATTR) {
        /* a creation map whose last entry is refused: the err_close path of a socket that never connected */
        if (vrnd_p(r, 50)) xcm_attr_map_add_str(cm, "xcm.nonexistent", "x"); else if (vtp_is_tcp_based(sc->tp) && sc->tp != TP_UTLS_UX) xcm_attr_map_add_int64(cm, "tcp.keepalive_time", -1); else xcm_attr_map_add_int64(cm, "xcm.blocking", 1);
        if (vrnd_p(r, 50)) xcm_attr_map_add_str(am, "xcm.nonexistent", "x");
        if (vrnd_p(r, 30)) xcm_attr_map_add_str(sm, "xcm.service", "nonsense");
    }
    step_no = 0;
    lv.sv = S_server(saddr, sm);
    if (sc->fl == FL_ADDR_IN_USE && sc->tp == TP_UXF && lv.sv) { struct xcm_socket *dup = S_server(saddr, sm); S_close(&dup, 3); }
    if (sc->fl == FL_ADDR_IN_USE && sc->tp == TP_UX && lv.sv) { struct xcm_socket *dup = S_server(saddr, sm); S_close(&dup, 3); }
    at_step(&lv);
    if (lv.sv) {
        const char *la = xcm_local_addr(lv.sv);
        snprintf(caddr, sizeof caddr, "%s", la ? la : saddr);
        if (sc->fl == FL_DNS && la) {
            struct vdns_plan dp; memset(&dp, 0, sizeof dp); snprintf(dp.name, sizeof dp.name, "c08.verif.test"); dp.deliver = vrnd_p(r, 50) ? VDNS_SYNC : VDNS_AFTER_PROCESS; dp.after = 2;
            vdns_addr4(&dp.addrs[dp.n++], "127.0.0.1"); vdns_enable(true); vdns_set(&dp);
            snprintf(caddr, sizeof caddr, "%s:c08.verif.test:%s", pr, strrchr(la, ':') + 1);
        }
        if (sc->fl == FL_LOCAL_ADDR) { char l[64]; snprintf(l, sizeof l, "%s:127.0.0.%d:0", sc->tp == TP_BTCP ? "btcp" : sc->tp == TP_BTLS ? "btls" : sc->tp == TP_TCP ? "tcp" : "tls", 2 + (int)vrnd_n(r, 200)); xcm_attr_map_add_str(cm, "xcm.local_addr", l);
            if (sc->tp == TP_UTLS_UX) snprintf(caddr, sizeof caddr, "tls:%s", strchr(la, ':') + 1); }
        if (sc->fl == FL_REFUSED) { S_close(&lv.sv, 2); }      /* nobody listens any more */
        if (sc->fl == FL_ACCEPT_EMPTY) { lv.ac = S_accept(lv.sv, am); }
        if (sc->fl == FL_CONNECTING) {
            /* the connect attempt stays in progress (the listener's queue is full, its SYNs are dropped) until tcp.connect_timeout ends it */
            const char *ips[1] = { "127.0.0.1" }; int port = vnet_pick_port(ips, 1);
            if (port > 0 && vnet_noanswer_open(&na, "127.0.0.1", port) == 0) { have_na = true; snprintf(caddr, sizeof caddr, "%s:127.0.0.1:%d", pr, port); xcm_attr_map_add_double(cm, "tcp.connect_timeout", 1.2); vobs("connects_kept_pending", 1); }
        }
        if (sc->fl == FL_BLOCKING_ACCEPT) blocking_accept(sc, r, &lv, caddr, am);
        else lv.cl = S_connect(caddr, cm);
        at_step(&lv);
        for (int i = 0; lv.cl && lv.sv && i < 3000; i++) {
            if (!lv.ac) { lv.ac = S_accept(lv.sv, am); if (!lv.ac && errno != EAGAIN) break; }
            int f1 = S_finish(lv.cl, 0); int e1 = errno;
            int f2 = lv.ac ? S_finish(lv.ac, 1) : -1; int e2 = errno;
            if (f1 == 0 && f2 == 0) { lv.ready = true; break; }
            if ((f1 < 0 && e1 != EAGAIN) || (lv.ac && f2 < 0 && e2 != EAGAIN)) break;
            if (i == 3) at_step(&lv);
            if (i > 30) napms(1);
            if (sc->fl == FL_CONNECTING) { napms(25); if (i > 80) break; }       /* nothing happens until the timeout: do not spin */
        }
        if (lv.cl && !lv.sv) for (int i = 0; i < 200; i++) { if (S_finish(lv.cl, 0) == 0 || errno != EAGAIN) break; napms(1); }
        at_step(&lv);
        if (lv.ready) {
            vobs("scenarios_established", 1);
            bool ok1 = S_msg(lv.cl, 0, lv.ac, 1, lv.bytestream, 1); at_step(&lv);
            bool ok2 = S_msg(lv.ac, 1, lv.cl, 0, lv.bytestream, 2);
            if (ok1 && ok2) vobs("scenarios_with_traffic", 1);
        }
    }
    xcm_attr_map_destroy(sm); xcm_attr_map_destroy(cm); xcm_attr_map_destroy(am);
    int ccfd[16]; int nccfd = 0;
    if (sc->fl == FL_CTL && !lv_out && getenv("XCM_CTL") && !strcmp(getenv("XCM_CTL"), ctl_dir)) {
        /* both seats of every control interface are taken when the sockets are closed */
        unsigned char b8[32];
        for (int rd = 0; rd < 2; rd++) {
            nccfd += vctl_connect_all(ctl_dir, ccfd + nccfd, NULL, 8 - 0);
            for (int k = 0; k < 12; k++) {
                if (lv.cl) { SCX("xcm_receive", 0); xcm_receive(lv.cl, b8, sizeof b8); vs_leave(); }
                if (lv.ac) { SCX("xcm_receive", 1); xcm_receive(lv.ac, b8, sizeof b8); vs_leave(); }
                if (lv.sv) { SCX("xcm_accept", 2); struct xcm_socket *x = xcm_accept(lv.sv); vs_leave(); if (x) { struct xcm_socket *y = x; S_close(&y, 1); } }
            }
            if (nccfd > 8) break;
        }
        if (nccfd) vobs("closes_with_two_control_clients_attached", 1);
    }
    if (blocker >= 0) close(blocker);
    if (have_na) vnet_noanswer_close(&na);
    if (lv_out) { *lv_out = lv; return; }
    /* close in a seed-chosen order */
    int order = (int)vrnd_n(r, 3);
    if (order == 0) { S_close(&lv.cl, 0); S_close(&lv.ac, 1); S_close(&lv.sv, 2); }
    else if (order == 1) { S_close(&lv.sv, 2); S_close(&lv.ac, 1); S_close(&lv.cl, 0); }
    else { S_close(&lv.ac, 1); S_close(&lv.sv, 2); S_close(&lv.cl, 0); }
    for (int i = 0; i < nccfd; i++) close(ccfd[i]);
    vdns_enable(false);
}

/* ---- verdict helpers ---- */
static void lv8(const char *rule, const char *site, const char *fmt, ...)
{
    char msg[900]; va_list ap; va_start(ap, fmt); vsnprintf(msg, sizeof msg, fmt, ap); va_end(ap);
    char key[240]; snprintf(key, sizeof key, "lifecycle:%s:%s", rule, site);
    vviol(cur_case, "lifecycle", key, veng_detail(ctx), "%s; %s", msg, ctx);
}

static int dir_entries(const char *d, char *first, size_t cap)
{
    int n = 0; DIR *dp = opendir(d); if (!dp) return 0;
    struct dirent *de; while ((de = readdir(dp))) { if (de->d_name[0] == '.') continue; if (!n && first) snprintf(first, cap, "%s", de->d_name); n++; }
    closedir(dp); return n;
}

static void end_checks(const struct fdtab *base, const char *site)
{
    struct vs_alarm al[16]; int na = vs_alarms_take(al, 16);
    for (int i = 0; i < na; i++) { char s2[200]; snprintf(s2, sizeof s2, "%s:%s", al[i].rule, al[i].api ? al[i].api : "?"); lv8(s2, site, "%s", al[i].what); }
    int bad = check_decoys();
    if (bad >= 0) lv8("foreign-descriptor-damaged", site, "descriptor %d, which the application had opened, was closed or replaced by the library", bad);
    close_decoys();
    struct fdtab now; fdtab_take(&now);
    for (int i = 0; i < now.n; i++) if (!fdtab_has(base, now.e[i].fd)) {
        int cr = vs_ledger_creator(now.e[i].fd); int own = vs_ledger_owner(now.e[i].fd);
        char s2[200]; snprintf(s2, sizeof s2, "descriptor-leak:%s", own == VS_OWN_XCM ? vs_call_name[cr] : "unknown-creator");
        lv8(s2, site, "after all sockets were closed descriptor %d -> %s is still open (created by %s in the scope of endpoint %d)", now.e[i].fd, now.e[i].tgt, own == VS_OWN_XCM ? vs_call_name[cr] : "?", vs_ledger_ep(now.e[i].fd));
    }
    for (int i = 0; i < base->n; i++) if (!fdtab_has(&now, base->e[i].fd)) lv8("baseline-descriptor-closed", site, "descriptor %d -> %s, open before the scenario, is gone", base->e[i].fd, base->e[i].tgt);
    char first[300] = "";
    if (dir_entries(uxf_dir, first, sizeof first) > 0) lv8("uxf-file-left", site, "UXF socket file %s still exists after close", first);
    if (dir_entries(ctl_dir, first, sizeof first) > 0) lv8("ctl-file-left", site, "control interface file %s still exists after close", first);
    /* heap as before: everything the scenario allocated has been released (LeakSanitizer only sees what became unreachable;
     * a cache entry that is never released stays reachable) */
    size_t now_heap = __sanitizer_get_current_allocated_bytes();
    long growth = (long)now_heap - (long)heap_base;
    vobs_max("max_heap_growth_after_close", growth > 0 ? growth : 0);
    if (growth > 6000) lv8("heap-not-released", site, "with every socket closed the heap holds %ld bytes more than before the scenario", growth);
    vobs("end_state_checks", 1);
    rmdir(uxf_dir); rmdir(ctl_dir);
}

/* ---- fork + cleanup ---- */
static const struct fdtab *fork_base;
static void at_step(struct live *lv)
{
    if (step_no++ != fork_at_step) return;
    /* control clients may be attached when the fork happens (the child inherits their descriptors too) */
    int cfd[8]; int ncfd = 0;
    if (getenv("XCM_CTL") && !strcmp(getenv("XCM_CTL"), ctl_dir)) {
        ncfd = vctl_connect_all(ctl_dir, cfd, NULL, 8);
        unsigned char b[32];
        for (int k = 0; k < 12; k++) {       /* let the owner accept them: it looks at the control descriptors on every fifth would-block call */
            if (lv->cl) { SCX("xcm_receive", 0); xcm_receive(lv->cl, b, sizeof b); vs_leave(); }
            if (lv->ac) { SCX("xcm_receive", 1); xcm_receive(lv->ac, b, sizeof b); vs_leave(); }
            if (lv->sv) { SCX("xcm_accept", 2); struct xcm_socket *x = xcm_accept(lv->sv); vs_leave(); if (x && !lv->ac) lv->ac = x; else if (x) { struct xcm_socket *y = x; S_close(&y, 1); } }
        }
        if (ncfd) vobs("forks_with_control_clients_attached", 1);
    }
    /* the owner sits in its event loop when the fork happens: conditions awaited, wake-up bells possibly ringing */
    if (lv->cl) { SCX("xcm_await", 0); xcm_await(lv->cl, XCM_SO_RECEIVABLE); vs_leave(); }
    if (lv->ac) { SCX("xcm_await", 1); xcm_await(lv->ac, XCM_SO_RECEIVABLE | XCM_SO_SENDABLE); vs_leave(); }
    if (lv->sv) { SCX("xcm_await", 2); xcm_await(lv->sv, XCM_SO_ACCEPTABLE); vs_leave(); }
    /* timers the library has armed for the owner (connect timeout, address fall-back delay): remaining time of each */
    double t_before = vnow(); double rem_before[64]; int tfd[64]; int ntf = 0;
    for (int fd = 0; fd < 1024 && ntf < 64; fd++) if (vs_ledger_owner(fd) == VS_OWN_XCM && vs_ledger_creator(fd) == VS_TIMERFD_CREATE) {
        struct itimerspec it; if (timerfd_gettime(fd, &it) == 0 && (it.it_value.tv_sec || it.it_value.tv_nsec)) { tfd[ntf] = fd; rem_before[ntf] = (double)it.it_value.tv_sec + (double)it.it_value.tv_nsec / 1e9; ntf++; } }
    fflush(stdout); fflush(stderr);
    pid_t pid = fork();
    if (pid < 0) return;
    if (pid == 0) {
        /* the child is not the owner: release process-local resources only */
        vs_set_watch(false, true);
        S_cleanup(&lv->cl, 0); S_cleanup(&lv->ac, 1); S_cleanup(&lv->sv, 2);
        struct vs_alarm al[16]; int na = vs_alarms_take(al, 16);
        for (int i = 0; i < na; i++) { char s2[200]; snprintf(s2, sizeof s2, "%s", al[i].rule); lv8(s2, "cleanup-child", "%s", al[i].what); }
        close_decoys();
        struct fdtab now; fdtab_take(&now);
        for (int i = 0; i < now.n; i++) if (!fdtab_has(fork_base, now.e[i].fd) && vs_ledger_owner(now.e[i].fd) == VS_OWN_XCM)
            lv8("cleanup-descriptor-left", "cleanup-child", "after xcm_cleanup of every socket the child still holds descriptor %d -> %s which the library created (%s)", now.e[i].fd, now.e[i].tgt, vs_call_name[vs_ledger_creator(now.e[i].fd)]);
        vobs("cleanup_children_checked", 1);
        vsummary(false); fflush(stdout);
        exit(0);        /* LeakSanitizer judges the child's heap */
    }
    int st = 0; waitpid(pid, &st, 0);
    /* the owner has made no call meanwhile: a timer that had not yet run out must still be armed */
    { double el = vnow() - t_before;
      for (int i = 0; i < ntf; i++) {
          struct itimerspec it; if (timerfd_gettime(tfd[i], &it) != 0) continue;
          bool armed = it.it_value.tv_sec || it.it_value.tv_nsec;
          if (rem_before[i] - el < 0.15) { vobs("owner_timers_too_close_to_expiry_to_judge", 1); continue; }
          vobs("owner_timers_checked_across_cleanup", 1);
          if (!armed) lv8("owner-timer-disarmed", "cleanup-child", "a timer of the owner (descriptor %d, %.2f s left) was armed when the child was forked; after the child's xcm_cleanup, %.2f s later and with no call made by the owner, it is disarmed: the owner's connect timeout will never fire", tfd[i], rem_before[i], el);
      } }
    for (int i = 0; i < ncfd; i++) close(cfd[i]);
    if (!(WIFEXITED(st) && WEXITSTATUS(st) == 0)) {
        char s2[64]; if (WIFSIGNALED(st)) snprintf(s2, sizeof s2, "sig%d", WTERMSIG(st)); else snprintf(s2, sizeof s2, "exit%d", WEXITSTATUS(st));
        char site[100]; snprintf(site, sizeof site, "cleanup-child:%s", s2);
        lv8("cleanup-child-died", site, "the child calling xcm_cleanup ended with %s (23 = LeakSanitizer found leaks)", s2);
    }
}

/* ---- counting and site enumeration ---- */
static const int inj_calls[] = { VS_SOCKET, VS_ACCEPT, VS_EPOLL_CREATE, VS_EVENTFD, VS_TIMERFD_CREATE, VS_CONNECT, VS_BIND, VS_LISTEN, VS_SETSOCKOPT, VS_FOPEN, VS_POLL };
#define N_INJ 11
static int errs_for(int call, int *out)
{
    switch (call) {
    case VS_ACCEPT: out[0] = EMFILE; out[1] = ENFILE; out[2] = ENOMEM; out[3] = EAGAIN; return 4;       /* EAGAIN: woken up, but the connection is gone again */
    case VS_SOCKET: case VS_EPOLL_CREATE: case VS_EVENTFD: case VS_TIMERFD_CREATE: out[0] = EMFILE; out[1] = ENFILE; out[2] = ENOMEM; return 3;
    case VS_CONNECT: out[0] = ECONNREFUSED; out[1] = ENETUNREACH; out[2] = EACCES; return 3;
    case VS_BIND: out[0] = EADDRINUSE; out[1] = EACCES; return 2;
    case VS_LISTEN: out[0] = EADDRINUSE; return 1;
    case VS_POLL: out[0] = EINTR; return 1;            /* a signal during a wait inside the library (synchronous name resolution) */
    case VS_SETSOCKOPT: out[0] = ENOPROTOOPT; out[1] = EINVAL; return 2;
    default: out[0] = EACCES; out[1] = EMFILE; return 2;
    }
}

static struct site *sites; static int n_sites;
struct cnt_arg { int scn; };
static void count_case(long idx, void *arg)
{
    struct cnt_arg *ca = arg; (void)idx;
    vrng r = { 12345 };
    vs_plan_init(&plan, 1); plan.quiet = true;
    scenario(&scns[ca->scn], &r, NULL);
    char p[700]; snprintf(p, sizeof p, "%s/count.%d", va.dir, ca->scn);
    FILE *f = fopen(p, "w");
    if (f) { for (int i = 0; i < N_INJ; i++) fprintf(f, "%d %ld\n", inj_calls[i], inj_calls[i] == VS_POLL ? plan.n_blocking_polls : plan.n_call[inj_calls[i]]); fclose(f); }
}

static void enumerate_sites(void)
{
    for (int t = 0; t < NTP; t++) for (int f = 0; f < FL_N; f++) if (flav_ok(tps[t], (enum flav)f)) scns[n_scn++] = (struct scn){ tps[t], (enum flav)f };
    int cap = 0;
    for (int s = 0; s < n_scn; s++) {
        struct cnt_arg ca = { s };
        vfork_case(-1 - s, count_case, &ca, 60, "C08:count");
        char p[700]; snprintf(p, sizeof p, "%s/count.%d", va.dir, s);
        FILE *f = fopen(p, "r"); if (!f) continue;
        int call; long n;
        while (fscanf(f, "%d %ld", &call, &n) == 2) {
            int errs[4]; int ne = errs_for(call, errs);
            for (long i = 1; i <= n + 1; i++) for (int e = 0; e < ne; e++) {     /* n+1: one beyond the calls of the fault-free run (paths taken only after an earlier retry) */
                if (n_sites == cap) { cap = cap ? cap * 2 : 1024; sites = realloc(sites, (size_t)cap * sizeof *sites); }
                sites[n_sites++] = (struct site){ s, call, (int)i, errs[e] };
            }
        }
        fclose(f); unlink(p);
    }
}

/* ---- the case ---- */
struct ccase { enum fam fam; int scn; struct site st; int rl_extra; int fork_step; };

static void gen_case(struct ccase *c, long idx)
{
    memset(c, 0, sizeof *c);
    long gi = idx * va.nworkers + va.worker;
    unsigned k = (unsigned)(gi % 20);
    if (k < 13) { c->fam = F_INJECT; c->st = sites[(uint64_t)(gi / 20 * 13 + k) * 2654435761u % (uint64_t)n_sites]; if (va.thorough) c->st = sites[(uint64_t)(gi / 20 * 13 + k) % (uint64_t)n_sites]; c->scn = c->st.scn; }
    else if (k < 16) { c->fam = F_RLIMIT; c->scn = (int)((gi / 20) % n_scn); c->rl_extra = (int)((gi / 20 / n_scn * 3 + (k - 13)) % 30); }
    else if (k < 17) { c->fam = F_BURST; c->scn = (int)((gi / 20) % n_scn); }
    else if (k < 19) { c->fam = F_FORK; c->scn = (int)((gi / 20) % n_scn); c->fork_step = (int)((gi / 20 / n_scn * 2 + (k - 17)) % 5); }
    else { c->fam = F_PLAIN; c->scn = (int)((gi / 20) % n_scn); }
}

static void one_case(long idx, void *arg)
{
    (void)arg;
    cur_case = idx;
    uint64_t ss = vsub_seed(va.seed, (uint64_t)va.worker, (uint64_t)idx);
    vrng r = { ss };
    struct ccase c; gen_case(&c, idx);
    const struct scn *sc = &scns[c.scn];
    /* the key names the transport and the failing call; index, errno and flavour are in the message and the replay */
    char site[200];
    snprintf(site, sizeof site, "%s:%s", proto(sc->tp), fam_name[c.fam]);
    if (c.fam == F_INJECT) snprintf(site, sizeof site, "%s:%s-fails", proto(sc->tp), vs_call_name[c.st.call]);
    snprintf(ctx, sizeof ctx, "{\"case\":%ld,\"sub_seed\":\"%" PRIu64 "\",\"family\":\"%s\",\"transport\":\"%s\",\"flavour\":\"%s\",\"fail_call\":\"%s\",\"fail_index\":%d,\"fail_errno\":%d,\"rlimit_extra\":%d,\"fork_step\":%d}",
             idx, ss, fam_name[c.fam], proto(sc->tp), flav_name[sc->fl], c.fam == F_INJECT ? vs_call_name[c.st.call] : "-", c.st.idx, c.st.err, c.rl_extra, c.fork_step);
    VLOG("case %s", ctx);
    /* per-case directories: files left by an earlier case that died must not be charged to this one */
    snprintf(uxf_dir, sizeof uxf_dir, "%s/uxf8-%d", va.dir, (int)getpid()); mkdir(uxf_dir, 0700);
    snprintf(ctl_dir, sizeof ctl_dir, "%s/ctl8-%d", va.dir, (int)getpid()); mkdir(ctl_dir, 0700);
    if (sc->fl == FL_CTL_LONG) {
        /* the operator's control directory has a long name: the control socket's path (dir + "/ctl-<pid>-<id>") approaches, reaches or
         * exceeds what a UNIX socket address holds (108 bytes).  Sockets must work (with or without a control socket), nothing may abort */
        size_t want = 84 + vrnd_n(&r, 24); size_t have = strlen(ctl_dir);         /* 84 .. 107 characters */
        if (have + 2 < want) { size_t k = have; ctl_dir[k++] = '-'; while (k < want) ctl_dir[k++] = 'c'; ctl_dir[k] = 0; mkdir(ctl_dir, 0700); }
        vobs_max("max_ctl_dir_length", (long)strlen(ctl_dir));
    }
    if (sc->fl == FL_CTL || sc->fl == FL_BLOCKING_ACCEPT || sc->fl == FL_CTL_LONG) { setenv("XCM_CTL", ctl_dir, 1); vs_ledger_reset(); }
    vs_set_watch(false, true);
    vs_plan_init(&plan, ss); plan.quiet = true;
    struct fdtab base; fdtab_take(&base);
    heap_base = __sanitizer_get_current_allocated_bytes();
    struct rlimit orl; getrlimit(RLIMIT_NOFILE, &orl);
    switch (c.fam) {
    case F_INJECT:
        plan.fail_call = c.st.call; plan.fail_at = c.st.idx; plan.fail_errno = c.st.err;
        scenario(sc, &r, NULL);
        if (plan.fail_fired) { vobs("injections_fired", 1); char sg[200]; snprintf(sg, sizeof sg, "%s|%s|%s|%d|%d", proto(sc->tp), flav_name[sc->fl], vs_call_name[c.st.call], c.st.idx, c.st.err); vsig_str(sg); }
        else vobs("injections_not_reached", 1);
        break;
    case F_RLIMIT: {
        struct rlimit rl = orl; rl.rlim_cur = (rlim_t)(base.n + 3 + c.rl_extra);     /* +3: numbers are allocated lowest-first, the table may have holes */
        int maxfd = 0; for (int i = 0; i < base.n; i++) if (base.e[i].fd > maxfd) maxfd = base.e[i].fd;
        rl.rlim_cur = (rlim_t)(maxfd + 1 + c.rl_extra);
        setrlimit(RLIMIT_NOFILE, &rl);
        scenario(sc, &r, NULL);
        setrlimit(RLIMIT_NOFILE, &orl);
        vobs("rlimit_runs", 1); { char sg[100]; snprintf(sg, sizeof sg, "rlimit|%s|%s|%d", proto(sc->tp), flav_name[sc->fl], c.rl_extra); vsig_str(sg); }
        break; }
    case F_BURST: {
        /* more than 100 sockets share one always-readable eventfd; the pool grows and shrinks */
        struct live lv[130]; int n = 105 + (int)vrnd_n(&r, 20); if (vtp_is_tls(sc->tp)) n = 52;
        memset(lv, 0, sizeof lv);
        struct scn s2 = { sc->tp, FL_PLAIN };
        for (int i = 0; i < n; i++) scenario(&s2, &r, &lv[i]);
        for (int i = 0; i < n; i += 2) { S_close(&lv[i].cl, 0); S_close(&lv[i].ac, 1); S_close(&lv[i].sv, 2); }
        for (int i = 1; i < n; i += 2) { S_close(&lv[i].sv, 2); S_close(&lv[i].ac, 1); S_close(&lv[i].cl, 0); }
        vobs("burst_runs", 1); vobs("burst_sockets", n * 3);
        break; }
    case F_FORK: {
        fork_at_step = c.fork_step; fork_base = &base;
        struct live lv;
        scenario(sc, &r, &lv);
        fork_at_step = -1;
        /* the owner carries on: the connection, the peer and the files are untouched */
        if (lv.ready) {
            /* the owner's event loop still works: a message sent by the peer makes the awaited socket's fd readable */
            unsigned char one[64]; memset(one, 5, sizeof one);
            { SCX("xcm_await", 0); xcm_await(lv.cl, XCM_SO_RECEIVABLE); vs_leave(); }
            int xfd; { SCX("xcm_fd", 0); xfd = xcm_fd(lv.cl); vs_leave(); }
            /* drain whatever was pending first (one speculative receive until EAGAIN, as an event loop does) */
            for (int i = 0; i < 50; i++) { unsigned char rb[300]; int rc = S_receive(lv.cl, 0, rb, sizeof rb); if (rc <= 0) break; }
            { SCX("xcm_await", 0); xcm_await(lv.cl, XCM_SO_RECEIVABLE); vs_leave(); }
            if (S_send(lv.ac, 1, one, sizeof one) >= 0) {
                bool woke = false;
                for (int i = 0; i < 1000 && !woke; i++) { S_finish(lv.ac, 1); struct pollfd pf = { .fd = xfd, .events = POLLIN }; if (vs_real_poll(&pf, 1, 1) > 0) woke = true; }
                if (!woke) lv8("owner-wakeup-lost", site, "after a forked child called xcm_cleanup the owner's awaited socket no longer becomes readable when the peer sends");
                else { vobs("owner_wakeup_after_cleanup_ok", 1); unsigned char rb[300]; size_t got = 0; for (int i = 0; i < 2000 && got < sizeof one; i++) { int rc = S_receive(lv.cl, 0, rb, sizeof rb); if (rc > 0) got += (size_t)rc; else if (rc == 0 || errno != EAGAIN) break; else napms(1); } }
            }
            if (!S_msg(lv.cl, 0, lv.ac, 1, lv.bytestream, 3) || !S_msg(lv.ac, 1, lv.cl, 0, lv.bytestream, 4)) lv8("owner-connection-damaged", site, "after a forked child called xcm_cleanup the owner's connection no longer carries messages");
            else vobs("owner_traffic_after_cleanup_ok", 1);
        }
        if (lv.sv && sc->tp == TP_UXF && lv.uxf_path[0] && access(lv.uxf_path, F_OK) != 0) lv8("owner-file-removed", site, "the UXF socket file disappeared after xcm_cleanup in a child");
        S_close(&lv.cl, 0); S_close(&lv.ac, 1); S_close(&lv.sv, 2); vdns_enable(false);
        vobs("fork_runs", 1); { char sg[100]; snprintf(sg, sizeof sg, "fork|%s|%s|%d", proto(sc->tp), flav_name[sc->fl], c.fork_step); vsig_str(sg); }
        break; }
    default:
        scenario(sc, &r, NULL);
        vobs("plain_runs", 1);
        break;
    }
    end_checks(&base, site);
    char cl[120]; snprintf(cl, sizeof cl, "%s/%s/%s", fam_name[c.fam], proto(sc->tp), flav_name[sc->fl]); vclass(cl);
    if (idx < 2) vsample(ctx);
    vcase_done(true);
}

static void warmup(void)
{
    /* OpenSSL, c-ares and glibc keep process-wide state after first use: take baselines after it exists */
    for (int t = 0; t < NTP; t++) {
        struct vep a, b, s; veng_ep_init(&a, 0, tps[t], 1); veng_ep_init(&b, 1, tps[t], 2); veng_ep_init(&s, 2, tps[t], 3);
        char why[200]; struct vpair_opts po = { 0 };
        veng_pair(tps[t], &a, &b, &s, &po, why, sizeof why);
        if (a.s) vx_close(&a); if (b.s) vx_close(&b); if (s.s) vx_close(&s);
    }
}

int main(int argc, char **argv)
{
    vparse_args(argc, argv);
    signal(SIGPIPE, SIG_IGN);
    setenv("VERIF_KEEP_CTL", "1", 1);
    veng_global_init();
    snprintf(uxf_dir, sizeof uxf_dir, "%s/uxf8", va.dir); mkdir(uxf_dir, 0700);
    snprintf(ctl_dir, sizeof ctl_dir, "%s/ctl8", va.dir); mkdir(ctl_dir, 0700);
    { char p[700]; snprintf(p, sizeof p, "%s/no-ctl", va.dir); setenv("XCM_CTL", p, 1); }
    { struct rlimit rl; if (getrlimit(RLIMIT_NOFILE, &rl) == 0 && rl.rlim_cur < 4096 && rl.rlim_max >= 4096) { rl.rlim_cur = 4096; setrlimit(RLIMIT_NOFILE, &rl); } }
    vstop_early_hangs_only(true);
    warmup();
    enumerate_sites();
    if (n_sites < 100) { vinconclusive("only %d injection sites enumerated", n_sites); vsummary(true); return 0; }
    vobs_max("max_sites_enumerated", n_sites);
    for (long i = 0; i < va.cases; i++) {
        if (va.only >= 0 && i != va.only) continue;
        if (va.only >= 0) { one_case(i, NULL); continue; }
        struct ccase c; gen_case(&c, i);
        char cls[120]; snprintf(cls, sizeof cls, "C08:%s:%s", proto(scns[c.scn].tp), c.fam == F_INJECT ? vs_call_name[c.st.call] : fam_name[c.fam]);
        vfork_case(i, one_case, NULL, 90, cls);
        if (vstop_early()) break;
    }
    vsummary(true);
    return 0;
}
