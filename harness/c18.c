/* c18.c - each TLS connection uses the credentials designated at that moment (C18).
 *
 * HISTORY   random histories of credential updates - rewrite in place (padded
 *           to one size), rename over, symlink flip, XCM_TLS_CERT switch,
 *           attribute overrides on connect/server/accept, by value <-> by
 *           file - interleaved with opening, using and closing connections.
 *           The harness records what was designated when each call was made;
 *           the identity each side sees of its peer (tls.peer.cert.subject.cn)
 *           and the trust decision must equal that record, and connections
 *           established earlier keep working and keep their identities.
 *   TWINS   two by-value configurations whose concatenated bytes are equal but
 *           whose item boundaries differ, the first kept open: the second
 *           must behave exactly as it does alone (no material mixed).
 *   RELEASE contexts are released with their last user: heap steady state over
 *           cycles with fresh credentials; after everything is closed a file
 *           rewritten with identical size, inode and mtime is read again.
 *   MALFORMED missing, empty, garbled, mismatching material => EPROTO.
 */
#include "vstate.h"

#include <fcntl.h>
#include <poll.h>
#include <signal.h>
#include <sys/stat.h>
#include <sched.h>
#include <sys/mount.h>
#include <sys/ioctl.h>
#include <net/if.h>

extern size_t __sanitizer_get_current_allocated_bytes(void);

static long cur_case;
static char ctx[900];

#define NID 6
static struct vpki_ent *rootA, *rootB, *idA[NID], *idB[NID], *interA, *viaI, *idRSA;
static char base[600];

static void cv(const char *rule, const char *what, const char *fmt, ...)
{
    char msg[1000]; va_list ap; va_start(ap, fmt); vsnprintf(msg, sizeof msg, fmt, ap); va_end(ap);
    char key[200]; snprintf(key, sizeof key, "cred:%s:%s", rule, what);
    vviol(cur_case, "cred", key, veng_detail(ctx), "%s; %s", msg, ctx);
}

#define SCX(nm, epn) struct vs_scope _sc = { .active = true, .nonblocking = true, .api = nm, .ep = epn, .plan = NULL }; vs_enter(&_sc)

static void make_pki(void)
{
    struct vpki_opts o; vpki_opts_default(&o); o.is_ca = true;
    rootA = vpki_make("root-A", NULL, &o); rootB = vpki_make("root-B", NULL, &o); interA = vpki_make("inter-A", rootA, &o);
    for (int i = 0; i < NID; i++) {
        char cn[32]; vpki_opts_default(&o); o.eku = VPKI_EKU_BOTH;
        snprintf(cn, sizeof cn, "id-A%d", i); idA[i] = vpki_make(cn, rootA, &o);
        if (i == 0) { struct vpki_opts ro = o; ro.rsa_key = true; idRSA = vpki_make("id-A-rsa", rootA, &ro); }      /* same CA, key of another algorithm */
        snprintf(cn, sizeof cn, "id-B%d", i); idB[i] = vpki_make(cn, rootB, &o);
    }
    vpki_opts_default(&o); o.eku = VPKI_EKU_BOTH; viaI = vpki_make("id-via-inter", interA, &o);
}

/* ---- files ---- */
#define PADSZ 4096
static void pad_write_fd(int fd, const char *data)
{
    char buf[PADSZ]; size_t l = strlen(data); memset(buf, '\n', sizeof buf); memcpy(buf, data, l < PADSZ ? l : PADSZ);
    if (write(fd, buf, PADSZ) != PADSZ) {}
}
static void write_inplace_raw(const char *path, const char *data) { int fd = open(path, O_WRONLY | O_CREAT | O_TRUNC, 0600); if (fd >= 0) { pad_write_fd(fd, data); close(fd); } }
/* rewrite in place; file time stamps have the granularity of the kernel's coarse clock (milliseconds): a rewrite must be
 * distinguishable from the previous content by its mtime, as it is for any real update tool that is not run twice within a tick */
static void write_inplace(const char *path, const char *data)
{
    struct stat before, after; bool had = stat(path, &before) == 0;
    for (int i = 0; i < 20; i++) {
        write_inplace_raw(path, data);
        if (!had || stat(path, &after) != 0 || after.st_mtim.tv_sec != before.st_mtim.tv_sec || after.st_mtim.tv_nsec != before.st_mtim.tv_nsec) return;
        struct pollfd none; vs_real_poll(&none, 0, 3);
    }
}
static void write_rename(const char *path, const char *data) { char t[800]; snprintf(t, sizeof t, "%s.new", path); int fd = open(t, O_WRONLY | O_CREAT | O_TRUNC, 0600); if (fd >= 0) { pad_write_fd(fd, data); close(fd); rename(t, path); } }

struct ident { const struct vpki_ent *e; int trust; };   /* trust: 0 A, 1 B, 2 both */
static const char *trust_pem(int t) { static char *both; if (!both) both = vpki_concat(rootA->cert_pem, rootB->cert_pem); return t == 0 ? rootA->cert_pem : t == 1 ? rootB->cert_pem : both; }
static bool trusted(int trust, const struct vpki_ent *e) { bool isB = e->issuer == rootB; return trust == 2 || (trust == 1) == isB; }

/* a credential directory: cert.pem key.pem tc.pem, possibly as symlinks into a store of per-identity files */
struct cdir { char path[700]; struct ident cur; bool symlinked, private_links; };

static void store_init(void)
{
    char p[800]; snprintf(p, sizeof p, "%s/store", base); mkdir(p, 0700);
    for (int k = 0; k < 2 * NID; k++) {
        const struct vpki_ent *e = k < NID ? idA[k] : idB[k - NID];
        snprintf(p, sizeof p, "%s/store/%s.cert", base, e->name); write_inplace(p, e->cert_pem);
        snprintf(p, sizeof p, "%s/store/%s.key", base, e->name); write_inplace(p, e->key_pem);
    }
    for (int t = 0; t < 3; t++) { snprintf(p, sizeof p, "%s/store/tc%d", base, t); write_inplace(p, trust_pem(t)); }
}

static void cdir_set(struct cdir *d, struct ident id, int how)   /* how: 0 in place, 1 rename over, 2 symlink flip */
{
    char c[800], k[800], t[800]; snprintf(c, sizeof c, "%s/cert.pem", d->path); snprintf(k, sizeof k, "%s/key.pem", d->path); snprintf(t, sizeof t, "%s/tc.pem", d->path);
    if (how == 3) {
        /* the links stay as they are; the files they point to (private to this directory) are rewritten in place */
        char tc[800], tk[800], tt[800], n[800];
        snprintf(tc, sizeof tc, "%s/t-cert", d->path); snprintf(tk, sizeof tk, "%s/t-key", d->path); snprintf(tt, sizeof tt, "%s/t-tc", d->path);
        write_inplace(tc, id.e->cert_pem); write_inplace(tk, id.e->key_pem); write_inplace(tt, trust_pem(id.trust));
        if (!d->private_links) {
            snprintf(n, sizeof n, "%s.l", c); unlink(n); if (symlink(tc, n) == 0) rename(n, c);
            snprintf(n, sizeof n, "%s.l", k); unlink(n); if (symlink(tk, n) == 0) rename(n, k);
            snprintf(n, sizeof n, "%s.l", t); unlink(n); if (symlink(tt, n) == 0) rename(n, t);
            d->private_links = true; d->symlinked = true;
        }
        d->cur = id;
        return;
    }
    d->private_links = false;
    if (how == 2) {
        char tc[800], tk[800], tt[800], n[800];
        snprintf(tc, sizeof tc, "%s/store/%s.cert", base, id.e->name); snprintf(tk, sizeof tk, "%s/store/%s.key", base, id.e->name); snprintf(tt, sizeof tt, "%s/store/tc%d", base, id.trust);
        /* atomically replace the link, key first is irrelevant: nothing connects in between */
        snprintf(n, sizeof n, "%s.l", c); unlink(n); if (symlink(tc, n) == 0) rename(n, c);
        snprintf(n, sizeof n, "%s.l", k); unlink(n); if (symlink(tk, n) == 0) rename(n, k);
        snprintf(n, sizeof n, "%s.l", t); unlink(n); if (symlink(tt, n) == 0) rename(n, t);
        d->symlinked = true;
    } else {
        if (d->symlinked) { unlink(c); unlink(k); unlink(t); d->symlinked = false; }
        if (how == 0) { write_inplace(c, id.e->cert_pem); write_inplace(k, id.e->key_pem); write_inplace(t, trust_pem(id.trust)); }
        else { write_rename(c, id.e->cert_pem); write_rename(k, id.e->key_pem); write_rename(t, trust_pem(id.trust)); }
    }
    d->cur = id;
}

/* ---- connections ---- */
struct conn { struct xcm_socket *cl, *ac; struct ident cid, sid; bool up; int server_idx; };
struct server { struct xcm_socket *s; struct cdir *dir; struct ident fixed; bool by_value, by_attr_files; bool env_default; int port; bool stale_env; };

static bool get_cn(struct xcm_socket *s, char *out, size_t cap) { SCX("xcm_attr_get", 9); int rc = xcm_attr_get_str(s, "tls.peer.cert.subject.cn", out, cap); vs_leave(); return rc > 0; }

static void add_by_value(struct xcm_attr_map *m, struct ident id)
{
    xcm_attr_map_add_bin(m, "tls.cert", id.e->cert_pem, strlen(id.e->cert_pem)); xcm_attr_map_add_bin(m, "tls.key", id.e->key_pem, strlen(id.e->key_pem));
    const char *tc = trust_pem(id.trust); xcm_attr_map_add_bin(m, "tls.tc", tc, strlen(tc));
}
static void add_by_files(struct xcm_attr_map *m, const struct cdir *d)
{
    char p[800];
    snprintf(p, sizeof p, "%s/cert.pem", d->path); xcm_attr_map_add_str(m, "tls.cert_file", p);
    snprintf(p, sizeof p, "%s/key.pem", d->path); xcm_attr_map_add_str(m, "tls.key_file", p);
    snprintf(p, sizeof p, "%s/tc.pem", d->path); xcm_attr_map_add_str(m, "tls.tc_file", p);
}

/* exchange one message each way on an established connection */
static bool ping(struct conn *c, unsigned tag, bool bytestream)
{
    unsigned char m[64], r[200];
    for (int dir = 0; dir < 2; dir++) {
        struct xcm_socket *tx = dir ? c->ac : c->cl, *rx = dir ? c->cl : c->ac;
        memset(m, (int)(tag + (unsigned)dir), sizeof m);
        size_t sent = 0, got = 0;
        for (int i = 0; i < 3000 && got < sizeof m; i++) {
            if (sent < sizeof m) { SCX("xcm_send", dir ? 1 : 0); int rc = xcm_send(tx, m + sent, sizeof m - sent); int se = errno; vs_leave(); if (rc >= 0) sent += bytestream ? (size_t)rc : sizeof m; else if (se != EAGAIN) return false; }
            { SCX("xcm_finish", dir ? 1 : 0); xcm_finish(tx); vs_leave(); }
            { SCX("xcm_receive", dir ? 0 : 1); int rc = xcm_receive(rx, r + got, sizeof r - got); int se = errno; vs_leave(); if (rc > 0) got += (size_t)rc; else if (rc == 0 || se != EAGAIN) return false; }
            if (i > 20) { struct pollfd none; vs_real_poll(&none, 0, 1); }
        }
        if (got != sizeof m || memcmp(m, r, sizeof m)) return false;
    }
    return true;
}

/* open client -> server; am may override on accept.  returns with c->up telling whether both sides finished */
static void open_conn(struct conn *c, struct server *sv, struct xcm_attr_map *cm, struct xcm_attr_map *am, const char *proto, int *cerr, int *aerr)
{
    char a[64]; snprintf(a, sizeof a, "%s:127.0.0.1:%d", proto, sv->port);
    *cerr = *aerr = 0; c->up = false;
    { SCX("xcm_connect_a", 0); c->cl = xcm_connect_a(a, cm); int se = errno; vs_leave(); if (!c->cl) { *cerr = se; return; } }
    bool fc = false, fa = false;
    for (int i = 0; i < 5000; i++) {
        if (!c->ac && !*aerr) { SCX("xcm_accept_a", 1); c->ac = xcm_accept_a(sv->s, am); int se = errno; vs_leave(); if (!c->ac && se != EAGAIN) *aerr = se; }
        if (!*cerr && !fc) { SCX("xcm_finish", 0); int f = xcm_finish(c->cl); int se = errno; vs_leave(); if (f == 0) fc = true; else if (se != EAGAIN) *cerr = se; }
        if (c->ac && !*aerr && !fa) { SCX("xcm_finish", 1); int f = xcm_finish(c->ac); int se = errno; vs_leave(); if (f == 0) fa = true; else if (se != EAGAIN) *aerr = se; }
        if (fc && fa) { c->up = true; return; }
        if ((*cerr || *aerr) && i > 300) return;
        if (i > 30) { struct pollfd none; vs_real_poll(&none, 0, 1); }
    }
}
static void close_conn(struct conn *c) { if (c->cl) { SCX("xcm_close", 0); xcm_close(c->cl); vs_leave(); } if (c->ac) { SCX("xcm_close", 1); xcm_close(c->ac); vs_leave(); } c->cl = c->ac = NULL; c->up = false; }

/* ---- HISTORY ---- */
static void run_history(long idx, vrng *r, bool btls)
{
    (void)idx;
    const char *proto = btls ? "btls" : "tls";
    struct cdir dirs[3]; memset(dirs, 0, sizeof dirs);
    for (int i = 0; i < 3; i++) { snprintf(dirs[i].path, sizeof dirs[i].path, "%s/d%d", base, i); mkdir(dirs[i].path, 0700); cdir_set(&dirs[i], (struct ident){ idA[i], 0 }, 0); }
    int env_dir = 0; setenv("XCM_TLS_CERT", dirs[0].path, 1);
    struct server svs[6]; memset(svs, 0, sizeof svs); int nsv = 0;
    struct conn conns[12]; memset(conns, 0, sizeof conns);
    int steps = va.thorough ? 60 : 28;
    for (int st = 0; st < steps && !vviol_count(); st++) {
        unsigned op = vrnd_n(r, 100);
        if (op < 22) {
            /* update the files of a directory */
            int di = (int)vrnd_n(r, 3); int how = (int)vrnd_n(r, 4);
            struct ident id = { vrnd_p(r, 80) ? idA[vrnd_n(r, NID)] : idB[vrnd_n(r, NID)], vrnd_p(r, 70) ? 2 : (int)vrnd_n(r, 2) };
            cdir_set(&dirs[di], id, how);
            vobs(how == 0 ? "updates_rewrite_in_place" : how == 1 ? "updates_rename_over" : how == 2 ? "updates_symlink_flip" : "updates_symlink_target_rewritten", 1);
        } else if (op < 28) {
            env_dir = (int)vrnd_n(r, 3); setenv("XCM_TLS_CERT", dirs[env_dir].path, 1); vobs("updates_env_switch", 1);
            for (int i = 0; i < nsv; i++) if (svs[i].env_default) svs[i].stale_env = true;      /* which directory an env-designated server uses from now on is not judged */
        } else if (op < 40 && nsv < 6) {
            /* a new server: by env default, by file attributes or by value */
            struct server *sv = &svs[nsv]; memset(sv, 0, sizeof *sv);
            struct xcm_attr_map *m = xcm_attr_map_create(); xcm_attr_map_add_bool(m, "xcm.blocking", false); if (btls) xcm_attr_map_add_str(m, "xcm.service", "bytestream");
            unsigned k = vrnd_n(r, 3);
            if (k == 0) { sv->env_default = true; sv->dir = &dirs[env_dir]; }
            else if (k == 1) { sv->by_attr_files = true; sv->dir = &dirs[vrnd_n(r, 3)]; add_by_files(m, sv->dir); }
            else { sv->by_value = true; sv->fixed = (struct ident){ idA[vrnd_n(r, NID)], 2 }; add_by_value(m, sv->fixed); }
            char a[64]; snprintf(a, sizeof a, "%s:127.0.0.1:0", proto);
            { SCX("xcm_server_a", 2); sv->s = xcm_server_a(a, m); vs_leave(); }
            xcm_attr_map_destroy(m);
            if (sv->s) { sv->port = atoi(strrchr(xcm_local_addr(sv->s), ':') + 1); nsv++; vobs("servers_created", 1); }
            else if (sv->dir && trusted(2, sv->dir->cur.e)) cv("server-creation-fails", proto, "xcm_server_a failed (%s) with well-formed credentials of %s", strerror(errno), sv->dir->cur.e->name);
        } else if (op < 78 && nsv > 0) {
            /* a new connection */
            int ci = -1; for (int i = 0; i < 12; i++) if (!conns[i].cl && !conns[i].ac) { ci = i; break; }
            if (ci < 0) continue;
            struct conn *c = &conns[ci]; memset(c, 0, sizeof *c);
            int si = (int)vrnd_n(r, (uint32_t)nsv); struct server *sv = &svs[si]; c->server_idx = si;
            if (sv->stale_env) continue;
            struct xcm_attr_map *cm = xcm_attr_map_create(), *am = xcm_attr_map_create(); xcm_attr_map_add_bool(cm, "xcm.blocking", false); if (btls) xcm_attr_map_add_str(cm, "xcm.service", "bytestream");
            /* client designation */
            unsigned k = vrnd_n(r, 3);
            if (k == 0) c->cid = dirs[env_dir].cur;
            else if (k == 1) { int di = (int)vrnd_n(r, 3); add_by_files(cm, &dirs[di]); c->cid = dirs[di].cur; }
            else { c->cid = (struct ident){ vrnd_p(r, 80) ? idA[vrnd_n(r, NID)] : idB[vrnd_n(r, NID)], vrnd_p(r, 70) ? 2 : (int)vrnd_n(r, 2) }; add_by_value(cm, c->cid); }
            /* server side designation: what the server socket names as it stands when accept is called, unless the accept map overrides */
            c->sid = sv->by_value ? sv->fixed : sv->dir->cur;
            unsigned ak = vrnd_n(r, 4);
            if (ak == 0) { c->sid = (struct ident){ idA[vrnd_n(r, NID)], 2 }; add_by_value(am, c->sid); vobs("accept_overrides", 1); }
            else if (ak == 1) { int di = (int)vrnd_n(r, 3); add_by_files(am, &dirs[di]); c->sid = dirs[di].cur; vobs("accept_overrides", 1); }
            int cerr, aerr; open_conn(c, sv, cm, am, proto, &cerr, &aerr);
            xcm_attr_map_destroy(cm); xcm_attr_map_destroy(am);
            vobs("connections_attempted", 1);
            bool expect_up = trusted(c->cid.trust, c->sid.e) && trusted(c->sid.trust, c->cid.e);
            char scn[64] = "", ccn[64] = "";
            if (c->up) { get_cn(c->cl, scn, sizeof scn); get_cn(c->ac, ccn, sizeof ccn); }
            if (c->up && !expect_up) cv("trust-not-as-designated", proto, "connection came up although the designated bundles do not admit it: client %s trusting %c, server %s trusting %c", c->cid.e->name, "AB*"[c->cid.trust], c->sid.e->name, "AB*"[c->sid.trust]);
            else if (!c->up && expect_up) cv("designated-credentials-not-used", proto, "connection failed (client errno %d, server errno %d) although designated material matches: client %s trusting %c, server %s trusting %c", cerr, aerr, c->cid.e->name, "AB*"[c->cid.trust], c->sid.e->name, "AB*"[c->sid.trust]);
            else if (c->up && strcmp(scn, c->sid.e->name)) cv("wrong-identity", "server-side", "the client sees the server as \"%s\"; designated for that accepted socket when xcm_accept_a was called: \"%s\"", scn, c->sid.e->name);
            else if (c->up && strcmp(ccn, c->cid.e->name)) cv("wrong-identity", "client-side", "the server sees the client as \"%s\"; designated when xcm_connect_a was called: \"%s\"", ccn, c->cid.e->name);
            else if (c->up) vobs("identities_verified", 1); else vobs("designated_rejections_verified", 1);
            if (!c->up) close_conn(c);
        } else if (op < 90) {
            /* an established connection keeps working and keeps its identities */
            int ci = (int)vrnd_n(r, 12); struct conn *c = &conns[ci];
            if (!c->up) continue;
            char scn[64] = "", ccn[64] = ""; get_cn(c->cl, scn, sizeof scn); get_cn(c->ac, ccn, sizeof ccn);
            if (!ping(c, (unsigned)st, btls)) cv("established-connection-broken", proto, "a connection established earlier no longer carries messages after credential updates");
            else if (strcmp(scn, c->sid.e->name) || strcmp(ccn, c->cid.e->name)) cv("established-identity-changed", proto, "an established connection now reports peers \"%s\"/\"%s\", it was established as \"%s\"/\"%s\"", scn, ccn, c->sid.e->name, c->cid.e->name);
            else vobs("established_connections_rechecked", 1);
        } else { int ci = (int)vrnd_n(r, 12); if (conns[ci].cl) close_conn(&conns[ci]); }
    }
    for (int i = 0; i < 12; i++) close_conn(&conns[i]);
    for (int i = 0; i < nsv; i++) { SCX("xcm_close", 2); xcm_close(svs[i].s); vs_leave(); }
    vsig_str(btls ? "history|btls" : "history|tls");
}

/* ---- TWINS ---- */
static bool try_pair(const char *proto, struct xcm_attr_map *sm, struct xcm_attr_map *cm, struct xcm_socket **keep_server, int *cerr, int *aerr, bool btls)
{
    struct server sv; memset(&sv, 0, sizeof sv);
    char a[64]; snprintf(a, sizeof a, "%s:127.0.0.1:0", proto);
    { SCX("xcm_server_a", 2); sv.s = xcm_server_a(a, sm); int se = errno; vs_leave(); if (!sv.s) { *aerr = se; *cerr = 0; return false; } }
    sv.port = atoi(strrchr(xcm_local_addr(sv.s), ':') + 1);
    struct conn c; memset(&c, 0, sizeof c);
    open_conn(&c, &sv, cm, NULL, proto, cerr, aerr);
    bool up = c.up && ping(&c, 7, btls);
    close_conn(&c);
    if (keep_server) *keep_server = sv.s; else { SCX("xcm_close", 2); xcm_close(sv.s); vs_leave(); }
    return up;
}

static void run_twins(long idx, vrng *r, bool btls)
{
    (void)idx;
    const char *proto = btls ? "btls" : "tls";
    int twin = (int)vrnd_n(r, 3);
    const struct vpki_ent *L = idA[vrnd_n(r, NID)];
    struct xcm_attr_map *A = xcm_attr_map_create(), *B = xcm_attr_map_create(), *C = xcm_attr_map_create();
    xcm_attr_map_add_bool(A, "xcm.blocking", false); xcm_attr_map_add_bool(B, "xcm.blocking", false); xcm_attr_map_add_bool(C, "xcm.blocking", false);
    if (btls) { xcm_attr_map_add_str(A, "xcm.service", "bytestream"); xcm_attr_map_add_str(B, "xcm.service", "bytestream"); xcm_attr_map_add_str(C, "xcm.service", "bytestream"); }
    const char *what;
    if (twin == 0) {
        /* A: tc = rootB + rootA.  B: key = K + rootB, tc = rootA.  Client: certified by root B. */
        what = "trust bundle boundary (key | tc)";
        char *tcA = vpki_concat(rootB->cert_pem, rootA->cert_pem), *keyB = vpki_concat(L->key_pem, rootB->cert_pem);
        xcm_attr_map_add_bin(A, "tls.cert", L->cert_pem, strlen(L->cert_pem)); xcm_attr_map_add_bin(A, "tls.key", L->key_pem, strlen(L->key_pem)); xcm_attr_map_add_bin(A, "tls.tc", tcA, strlen(tcA));
        xcm_attr_map_add_bin(B, "tls.cert", L->cert_pem, strlen(L->cert_pem)); xcm_attr_map_add_bin(B, "tls.key", keyB, strlen(keyB)); xcm_attr_map_add_bin(B, "tls.tc", rootA->cert_pem, strlen(rootA->cert_pem));
        add_by_value(C, (struct ident){ idB[0], 0 });
        free(tcA); free(keyB);
    } else if (twin == 1) {
        /* A: cert = leaf + intermediate.  B: cert = leaf, key = intermediate + K.  Client trusts root A only: B alone cannot be verified. */
        what = "certificate chain boundary (cert | key)";
        char *certA = vpki_concat(viaI->cert_pem, interA->cert_pem), *keyB = vpki_concat(interA->cert_pem, viaI->key_pem);
        xcm_attr_map_add_bin(A, "tls.cert", certA, strlen(certA)); xcm_attr_map_add_bin(A, "tls.key", viaI->key_pem, strlen(viaI->key_pem)); xcm_attr_map_add_bin(A, "tls.tc", rootA->cert_pem, strlen(rootA->cert_pem));
        xcm_attr_map_add_bin(B, "tls.cert", viaI->cert_pem, strlen(viaI->cert_pem)); xcm_attr_map_add_bin(B, "tls.key", keyB, strlen(keyB)); xcm_attr_map_add_bin(B, "tls.tc", rootA->cert_pem, strlen(rootA->cert_pem));
        add_by_value(C, (struct ident){ idA[1], 0 });
        free(certA); free(keyB);
    } else {
        /* A: tc = rootA + rootB, no CRL.  B: tc = rootA, "crl" = rootB's certificate (not a CRL at all) with tls.check_crl. */
        what = "trust | crl boundary";
        char *tcA = vpki_concat(rootA->cert_pem, rootB->cert_pem);
        xcm_attr_map_add_bin(A, "tls.cert", L->cert_pem, strlen(L->cert_pem)); xcm_attr_map_add_bin(A, "tls.key", L->key_pem, strlen(L->key_pem)); xcm_attr_map_add_bin(A, "tls.tc", tcA, strlen(tcA));
        xcm_attr_map_add_bin(B, "tls.cert", L->cert_pem, strlen(L->cert_pem)); xcm_attr_map_add_bin(B, "tls.key", L->key_pem, strlen(L->key_pem)); xcm_attr_map_add_bin(B, "tls.tc", rootA->cert_pem, strlen(rootA->cert_pem));
        xcm_attr_map_add_bool(B, "tls.check_crl", true); xcm_attr_map_add_bin(B, "tls.crl", rootB->cert_pem, strlen(rootB->cert_pem));
        add_by_value(C, (struct ident){ idA[1], 0 });
        free(tcA);
    }
    int ce1, ae1, ce2, ae2, ce0, ae0;
    bool alone = try_pair(proto, B, C, NULL, &ce1, &ae1, btls);
    struct xcm_socket *keepA = NULL;
    bool a_ok = try_pair(proto, A, C, &keepA, &ce0, &ae0, btls);     /* A stays open: its context stays cached */
    bool with_twin = try_pair(proto, B, C, NULL, &ce2, &ae2, btls);
    vobs("twin_pairs_tried", 1);
    if (alone != with_twin) cv("material-mixed", twin == 0 ? "key|tc" : twin == 1 ? "cert|key" : "tc|crl",
        "%s: configuration B alone %s (client errno %d, server errno %d); with configuration A (same concatenated bytes, different item boundaries) kept open B %s (client errno %d, server errno %d); A itself %s",
        what, alone ? "connects" : "is refused", ce1, ae1, with_twin ? "connects" : "is refused", ce2, ae2, a_ok ? "connects" : "is refused");
    if (keepA) { SCX("xcm_close", 2); xcm_close(keepA); vs_leave(); }
    xcm_attr_map_destroy(A); xcm_attr_map_destroy(B); xcm_attr_map_destroy(C);
    { char sg[64]; snprintf(sg, sizeof sg, "twins|%d|%s", twin, proto); vsig_str(sg); }
}

/* ---- RELEASE ---- */
static void run_release(long idx, vrng *r, bool btls)
{
    (void)idx;
    const char *proto = btls ? "btls" : "tls";
    /* steady state: every cycle uses credentials never seen before (a fresh leaf), by value */
    size_t h1 = 0, h2 = 0; int cycles = va.thorough ? 120 : 40;
    for (int i = 0; i < cycles; i++) {
        struct vpki_opts o; vpki_opts_default(&o); o.eku = VPKI_EKU_BOTH; char cn[32]; snprintf(cn, sizeof cn, "fresh-%d", i);
        struct vpki_ent *f = vpki_make(cn, rootA, &o);
        struct xcm_attr_map *sm = xcm_attr_map_create(), *cm = xcm_attr_map_create(); xcm_attr_map_add_bool(sm, "xcm.blocking", false); xcm_attr_map_add_bool(cm, "xcm.blocking", false);
        if (btls) { xcm_attr_map_add_str(sm, "xcm.service", "bytestream"); xcm_attr_map_add_str(cm, "xcm.service", "bytestream"); }
        add_by_value(sm, (struct ident){ f, 0 }); add_by_value(cm, (struct ident){ idA[i % NID], 0 });
        int ce, ae; bool up = try_pair(proto, sm, cm, NULL, &ce, &ae, btls);
        xcm_attr_map_destroy(sm); xcm_attr_map_destroy(cm); vpki_free(f);
        if (!up) { vobs("release_cycle_failed", 1); }
        if (i == cycles / 4) h1 = __sanitizer_get_current_allocated_bytes();
        if (i == cycles - 1) h2 = __sanitizer_get_current_allocated_bytes();
    }
    long growth = (long)h2 - (long)h1; long per = growth / (cycles - cycles / 4);
    vobs_max("max_heap_growth_per_cycle_bytes", per > 0 ? per : 0); vobs("release_cycles", cycles);
    if (per > 1500) cv("contexts-not-released", proto, "heap grows by about %ld bytes per open/close cycle with fresh credentials (%ld bytes over %d cycles): cached TLS contexts are not released with their last user", per, growth, cycles - cycles / 4);
    /* behavioural probe: same size, same inode, same mtime - the file must still be read again once nobody uses the old context */
    struct cdir d; memset(&d, 0, sizeof d); snprintf(d.path, sizeof d.path, "%s/rel", base); mkdir(d.path, 0700);
    int i1 = (int)vrnd_n(r, NID), i2 = (i1 + 1 + (int)vrnd_n(r, NID - 1)) % NID;
    cdir_set(&d, (struct ident){ idA[i1], 0 }, 0);
    char cp[800], kp[800]; snprintf(cp, sizeof cp, "%s/cert.pem", d.path); snprintf(kp, sizeof kp, "%s/key.pem", d.path);
    struct stat st1, st2; stat(cp, &st1); stat(kp, &st2);
    for (int round = 0; round < 2; round++) {
        struct xcm_attr_map *sm = xcm_attr_map_create(), *cm = xcm_attr_map_create(); xcm_attr_map_add_bool(sm, "xcm.blocking", false); xcm_attr_map_add_bool(cm, "xcm.blocking", false);
        if (btls) { xcm_attr_map_add_str(sm, "xcm.service", "bytestream"); xcm_attr_map_add_str(cm, "xcm.service", "bytestream"); }
        add_by_files(sm, &d); add_by_value(cm, (struct ident){ idA[0], 0 });
        struct server sv; memset(&sv, 0, sizeof sv); char a[64]; snprintf(a, sizeof a, "%s:127.0.0.1:0", proto);
        { SCX("xcm_server_a", 2); sv.s = xcm_server_a(a, sm); vs_leave(); }
        if (sv.s) {
            sv.port = atoi(strrchr(xcm_local_addr(sv.s), ':') + 1);
            struct conn c; memset(&c, 0, sizeof c); int ce, ae; open_conn(&c, &sv, cm, NULL, proto, &ce, &ae);
            char scn[64] = ""; if (c.up) get_cn(c.cl, scn, sizeof scn);
            const char *want = round == 0 ? idA[i1]->name : idA[i2]->name;
            if (c.up && strcmp(scn, want)) cv("stale-context-after-release", proto, "all users of the old context were closed, the file was rewritten (same size, inode and mtime): the new connection presents \"%s\", the file holds \"%s\"", scn, want);
            else if (c.up && round == 1) vobs("release_probes_verified", 1);
            close_conn(&c); { SCX("xcm_close", 2); xcm_close(sv.s); vs_leave(); }
        }
        xcm_attr_map_destroy(sm); xcm_attr_map_destroy(cm);
        if (round == 0) {
            write_inplace_raw(cp, idA[i2]->cert_pem); write_inplace_raw(kp, idA[i2]->key_pem);
            struct timespec ts[2] = { st1.st_atim, st1.st_mtim }; utimensat(AT_FDCWD, cp, ts, 0); struct timespec ts2[2] = { st2.st_atim, st2.st_mtim }; utimensat(AT_FDCWD, kp, ts2, 0);
        }
    }
    vsig_str(btls ? "release|btls" : "release|tls");
}


/* ---- UPDATE DURING LOAD: the credential files are replaced between two reads of one xcm_connect_a.  Whatever the call ends up with is one
 * configuration or the other, never the certificate and key of one with the trust bundle of the other ---- */
struct midload { struct cdir *d; struct ident to; int how; bool fired; };
static void midload_hook(const char *path, void *arg) { (void)path; struct midload *ml = arg; cdir_set(ml->d, ml->to, ml->how); ml->fired = true; }

static void run_midload(long idx, vrng *r, bool btls)
{
    (void)idx;
    const char *proto = btls ? "btls" : "tls";
    for (int round = 0; round < 4; round++) {
        struct cdir d; memset(&d, 0, sizeof d); snprintf(d.path, sizeof d.path, "%s/ml%d", base, round); mkdir(d.path, 0700);
        int how0 = (int)vrnd_n(r, 3), how1 = 1 + (int)vrnd_n(r, 2);          /* the update itself: rename over or symlink flip (atomic per file) */
        struct ident old = { idA[vrnd_n(r, NID)], 0 }, neu = { idB[vrnd_n(r, NID)], 1 };
        cdir_set(&d, old, how0);
        /* the server presents a root-B identity and trusts both roots: old (trusting A only) cannot come up, new comes up as the new identity,
         * a mix of the old certificate with the new trust bundle would come up as the OLD identity */
        struct server sv; memset(&sv, 0, sizeof sv);
        struct xcm_attr_map *sm = xcm_attr_map_create(); xcm_attr_map_add_bool(sm, "xcm.blocking", false); if (btls) xcm_attr_map_add_str(sm, "xcm.service", "bytestream");
        add_by_value(sm, (struct ident){ idB[0], 2 });
        char a[64]; snprintf(a, sizeof a, "%s:127.0.0.1:0", proto);
        { SCX("xcm_server_a", 2); sv.s = xcm_server_a(a, sm); vs_leave(); }
        xcm_attr_map_destroy(sm);
        if (!sv.s) { vobs("setup_failed", 1); continue; }
        sv.port = atoi(strrchr(xcm_local_addr(sv.s), ':') + 1);
        static const char *const sfx[3] = { "/cert.pem", "/key.pem", "/tc.pem" };
        struct midload ml = { &d, neu, how1, false };
        vs_set_fopen_hook(sfx[vrnd_n(r, 3)], midload_hook, &ml);
        struct xcm_attr_map *cm = xcm_attr_map_create(); xcm_attr_map_add_bool(cm, "xcm.blocking", false); if (btls) xcm_attr_map_add_str(cm, "xcm.service", "bytestream");
        add_by_files(cm, &d);
        struct conn c; memset(&c, 0, sizeof c); int cerr, aerr;
        open_conn(&c, &sv, cm, NULL, proto, &cerr, &aerr);
        vs_set_fopen_hook(NULL, NULL, NULL);
        xcm_attr_map_destroy(cm);
        if (ml.fired) vobs("updates_landed_between_two_reads", 1);
        if (c.up) {
            char cn[200] = ""; get_cn(c.ac, cn, sizeof cn);
            if (ml.fired && !strcmp(cn, old.e->name)) cv("mixed-during-load", proto, "the credential files were replaced (%s) while xcm_connect_a was reading them: the connection came up presenting the OLD certificate (%s) to a server only the NEW trust bundle admits - certificate/key of one configuration, trusted CAs of the other", how1 == 1 ? "rename over" : "symlink flip", cn);
            else if (strcmp(cn, neu.e->name) && strcmp(cn, old.e->name)) cv("wrong-identity", "during-load", "the server sees '%s', neither the old (%s) nor the new (%s) identity", cn, old.e->name, neu.e->name);
            else vobs("loads_consistent_new", 1);
        } else vobs("loads_consistent_old_or_refused", 1);
        close_conn(&c);
        { SCX("xcm_close", 2); xcm_close(sv.s); vs_leave(); }
    }
    vsig_str(btls ? "midload|btls" : "midload|tls");
}


/* ---- NAMED NETWORK NAMESPACE: a thread in the namespace <ns> takes cert_<ns>.pem, key_<ns>.pem, tc_<ns>.pem and crl_<ns>.pem from the
 * XCM_TLS_CERT directory - all four, never the default namespace's file for one of them.  The case process (a forked child) moves into a
 * network namespace of its own and registers it under a name in a private /run/netns ---- */
static bool enter_named_netns(const char *name)
{
    if (unshare(CLONE_NEWNS | CLONE_NEWNET) < 0) return false;
    if (mount("none", "/", NULL, MS_REC | MS_PRIVATE, NULL) < 0) return false;
    mkdir("/run/netns", 0755);
    if (mount("tmpfs", "/run/netns", "tmpfs", 0, NULL) < 0) return false;
    char p[160]; snprintf(p, sizeof p, "/run/netns/%s", name);
    int fd = open(p, O_CREAT | O_RDONLY, 0444); if (fd < 0) return false; close(fd);
    if (mount("/proc/self/ns/net", p, NULL, MS_BIND, NULL) < 0) return false;
    int sk = socket(AF_INET, SOCK_DGRAM, 0); if (sk < 0) return false;
    struct ifreq ifr; memset(&ifr, 0, sizeof ifr); snprintf(ifr.ifr_name, sizeof ifr.ifr_name, "lo");
    bool up = ioctl(sk, SIOCGIFFLAGS, &ifr) == 0; if (up) { ifr.ifr_flags |= IFF_UP; up = ioctl(sk, SIOCSIFFLAGS, &ifr) == 0; }
    close(sk);
    return up;
}

static void run_netns(long idx, vrng *r, bool btls)
{
    (void)idx;
    const char *proto = btls ? "btls" : "tls", *ns = "c18ns";
    if (!enter_named_netns(ns)) { vobs("namespace_setup_failed", 1); return; }
    char d[700], p[900]; snprintf(d, sizeof d, "%s/nsdir", base); mkdir(d, 0700);
    const struct vpki_ent *srv = idA[0], *revoked = idA[1 + vrnd_n(r, NID - 1)];
    const struct vpki_ent *good = idA[1]; if (good == revoked) good = idA[2];
    struct vpki_ent *rv[1] = { (struct vpki_ent *)revoked };
    char *crl_ns = vpki_make_crl(rootA, rv, 1, -3600, 86400 * 30), *crl_def = vpki_make_crl(rootA, NULL, 0, -3600, 86400 * 30);
    /* the namespace's files ... */
    snprintf(p, sizeof p, "%s/cert_%s.pem", d, ns); write_inplace(p, srv->cert_pem);
    snprintf(p, sizeof p, "%s/key_%s.pem", d, ns); write_inplace(p, srv->key_pem);
    snprintf(p, sizeof p, "%s/tc_%s.pem", d, ns); write_inplace(p, rootA->cert_pem);
    snprintf(p, sizeof p, "%s/crl_%s.pem", d, ns); write_inplace(p, crl_ns);
    /* ... and the default namespace's, which differ in every item */
    snprintf(p, sizeof p, "%s/cert.pem", d); write_inplace(p, idB[0]->cert_pem);
    snprintf(p, sizeof p, "%s/key.pem", d); write_inplace(p, idB[0]->key_pem);
    snprintf(p, sizeof p, "%s/tc.pem", d); write_inplace(p, rootB->cert_pem);
    snprintf(p, sizeof p, "%s/crl.pem", d); write_inplace(p, crl_def);
    free(crl_ns); free(crl_def);
    setenv("XCM_TLS_CERT", d, 1);
    struct server sv; memset(&sv, 0, sizeof sv);
    struct xcm_attr_map *sm = xcm_attr_map_create(); xcm_attr_map_add_bool(sm, "xcm.blocking", false); if (btls) xcm_attr_map_add_str(sm, "xcm.service", "bytestream");
    xcm_attr_map_add_bool(sm, "tls.check_crl", true);
    char a[64]; snprintf(a, sizeof a, "%s:127.0.0.1:0", proto);
    { SCX("xcm_server_a", 2); sv.s = xcm_server_a(a, sm); vs_leave(); }
    xcm_attr_map_destroy(sm);
    if (!sv.s) { cv("namespace-material-not-used", "server", "in the named namespace '%s', with cert_/key_/tc_/crl_%s.pem complete, xcm_server_a(tls.check_crl=true) failed with errno %d (%s)", ns, ns, errno, strerror(errno)); return; }
    sv.port = atoi(strrchr(xcm_local_addr(sv.s), ':') + 1);
    vobs("servers_in_a_named_namespace", 1);
    for (int k = 0; k < 2; k++) {
        const struct vpki_ent *who = k == 0 ? good : revoked;
        struct xcm_attr_map *cm = xcm_attr_map_create(); xcm_attr_map_add_bool(cm, "xcm.blocking", false); if (btls) xcm_attr_map_add_str(cm, "xcm.service", "bytestream");
        add_by_value(cm, (struct ident){ who, 0 });
        struct conn c; memset(&c, 0, sizeof c); int cerr, aerr;
        open_conn(&c, &sv, cm, NULL, proto, &cerr, &aerr);
        xcm_attr_map_destroy(cm);
        if (k == 0) {
            char cn[200] = "";
            if (!c.up) cv("namespace-material-not-used", "good-client", "a client that the namespace's trust bundle and CRL admit was refused (client errno %d, server errno %d)", cerr, aerr);
            else if (get_cn(c.cl, cn, sizeof cn) && strcmp(cn, srv->name)) cv("namespace-material-not-used", "server-identity", "the server in namespace '%s' presents '%s', the namespace's certificate is '%s'", ns, cn, srv->name);
            else vobs("namespace_identities_verified", 1);
        } else {
            if (c.up) cv("namespace-material-not-used", "crl", "the client certificate '%s' is revoked by crl_%s.pem (the default namespace's crl.pem revokes nobody): the connection was admitted", who->name, ns);
            else vobs("namespace_revocations_verified", 1);
        }
        close_conn(&c);
    }
    { SCX("xcm_close", 2); xcm_close(sv.s); vs_leave(); }
    vsig_str(btls ? "netns|btls" : "netns|tls");
}

/* ---- MALFORMED ---- */
static void run_malformed(long idx, vrng *r, bool btls)
{
    (void)idx;
    const char *proto = btls ? "btls" : "tls";
    struct cdir d; memset(&d, 0, sizeof d); snprintf(d.path, sizeof d.path, "%s/bad", base); mkdir(d.path, 0700);
    for (int k = 0; k < 15; k++) {
        cdir_set(&d, (struct ident){ idA[0], 0 }, 0);
        char cp[800], kp[800], tp[800]; snprintf(cp, sizeof cp, "%s/cert.pem", d.path); snprintf(kp, sizeof kp, "%s/key.pem", d.path); snprintf(tp, sizeof tp, "%s/tc.pem", d.path);
        const char *what;
        bool by_value = false; struct xcm_attr_map *m = xcm_attr_map_create(); xcm_attr_map_add_bool(m, "xcm.blocking", false); if (btls) xcm_attr_map_add_str(m, "xcm.service", "bytestream");
        switch (k) {
        case 0: unlink(cp); what = "certificate file missing"; break;
        case 1: { int fd = open(kp, O_WRONLY | O_TRUNC); if (fd >= 0) close(fd); what = "key file empty"; break; }
        case 2: write_inplace(cp, "-----BEGIN CERTIFICATE-----\nAAAA\n-----END CERTIFICATE-----\n"); what = "certificate garbled"; break;
        case 3: write_inplace(kp, idA[1]->key_pem); what = "key does not match the certificate"; break;
        case 4: write_inplace(tp, "this is not PEM\n"); what = "trust bundle is not PEM"; break;
        case 5: unlink(tp); what = "trust bundle missing"; break;
        case 6: by_value = true; xcm_attr_map_add_bin(m, "tls.cert", idA[0]->cert_pem, strlen(idA[0]->cert_pem)); xcm_attr_map_add_bin(m, "tls.key", idA[2]->key_pem, strlen(idA[2]->key_pem)); xcm_attr_map_add_bin(m, "tls.tc", rootA->cert_pem, strlen(rootA->cert_pem)); what = "by-value key does not match the certificate"; break;
        case 7: by_value = true; xcm_attr_map_add_bin(m, "tls.cert", "garbage", 7); xcm_attr_map_add_bin(m, "tls.key", idA[0]->key_pem, strlen(idA[0]->key_pem)); xcm_attr_map_add_bin(m, "tls.tc", rootA->cert_pem, strlen(rootA->cert_pem)); what = "by-value certificate garbled"; break;
        case 9: write_inplace(kp, idRSA->key_pem); what = "RSA key with an EC certificate (another algorithm: only the final consistency check can notice)"; break;
        case 10: write_inplace(cp, idRSA->cert_pem); what = "RSA certificate with an EC key"; break;
        case 11: by_value = true; xcm_attr_map_add_bin(m, "tls.cert", idRSA->cert_pem, strlen(idRSA->cert_pem)); xcm_attr_map_add_bin(m, "tls.key", idA[0]->key_pem, strlen(idA[0]->key_pem)); xcm_attr_map_add_bin(m, "tls.tc", rootA->cert_pem, strlen(rootA->cert_pem)); what = "by-value RSA certificate with an EC key"; break;
        case 12: { char *b = vpki_concat(rootA->cert_pem, "-----BEGIN CERTIFICATE-----\nAAAAinvalid*base64!!\n-----END CERTIFICATE-----\n"); write_inplace(tp, b); free(b); what = "trust bundle: first certificate intact, second one damaged (bad base64)"; break; }
        case 13: { char *b = vpki_concat(rootA->cert_pem, rootB->cert_pem); b[strlen(b) - 120] = 0; write_inplace(tp, b); free(b); what = "trust bundle: second certificate cut off in the middle"; break; }
        case 14: { by_value = true; char *b = vpki_concat(rootA->cert_pem, "-----BEGIN CERTIFICATE-----\nTm90IERFUiBhdCBhbGwsIGp1c3QgdGV4dA==\n-----END CERTIFICATE-----\n");
                   xcm_attr_map_add_bin(m, "tls.cert", idA[0]->cert_pem, strlen(idA[0]->cert_pem)); xcm_attr_map_add_bin(m, "tls.key", idA[0]->key_pem, strlen(idA[0]->key_pem)); xcm_attr_map_add_bin(m, "tls.tc", b, strlen(b)); free(b);
                   what = "by-value trust bundle: second entry is valid armour around something that is no certificate"; break; }
        default: unlink(cp); mkdir(cp, 0700); what = "certificate path is a directory"; break;
        }
        if (!by_value) add_by_files(m, &d);
        bool on_server = vrnd_p(r, 50);
        char a[64]; snprintf(a, sizeof a, "%s:127.0.0.1:%d", proto, on_server ? 0 : 9);
        struct xcm_socket *s; int se;
        if (on_server) { SCX("xcm_server_a", 2); s = xcm_server_a(a, m); se = errno; vs_leave(); } else { SCX("xcm_connect_a", 0); s = xcm_connect_a(a, m); se = errno; vs_leave(); }
        vobs("malformed_material_cases", 1);
        if (s) { cv("malformed-accepted", on_server ? "server" : "connect", "%s: %s succeeded", what, on_server ? "xcm_server_a" : "xcm_connect_a"); SCX("xcm_close", 0); xcm_close(s); vs_leave(); }
        else if (se != EPROTO) cv("malformed-errno", on_server ? "server" : "connect", "%s: %s failed with errno %d (%s), expected EPROTO", what, on_server ? "xcm_server_a" : "xcm_connect_a", se, strerror(se));
        xcm_attr_map_destroy(m);
        if (k == 8) rmdir(cp);
    }
    vsig_str(btls ? "malformed|btls" : "malformed|tls");
}

static void one_case(long idx, void *arg)
{
    (void)arg;
    cur_case = idx;
    uint64_t ss = vsub_seed(va.seed, (uint64_t)va.worker, (uint64_t)idx);
    vrng r = { ss };
    long gi = idx * va.nworkers + va.worker;
    unsigned k = (unsigned)(gi % 10); bool btls = (gi / 10) % 2;
    bool midload = k == 5;          /* one history slot in six goes to updates that land inside a load */
    bool netns = k == 4 && (gi / 20) % 2 == 0;      /* and every other of another one to the named-namespace file naming */
    const char *fam = netns ? "named-namespace" : midload ? "update-during-load" : k < 6 ? "history" : k < 8 ? "twins" : k < 9 ? "release" : "malformed";
    snprintf(ctx, sizeof ctx, "{\"case\":%ld,\"sub_seed\":\"%" PRIu64 "\",\"family\":\"%s\",\"transport\":\"%s\"}", idx, ss, fam, btls ? "btls" : "tls");
    VLOG("case %s", ctx);
    snprintf(base, sizeof base, "%s/c18-%d", va.dir, (int)getpid()); mkdir(base, 0700);
    store_init();
    if (netns) run_netns(idx, &r, btls); else if (midload) run_midload(idx, &r, btls); else if (k < 6) run_history(idx, &r, btls); else if (k < 8) run_twins(idx, &r, btls); else if (k < 9) run_release(idx, &r, btls); else run_malformed(idx, &r, btls);
    { char cmd[700]; snprintf(cmd, sizeof cmd, "rm -rf '%s'", base); if (system(cmd)) {} }
    char cl[64]; snprintf(cl, sizeof cl, "%s/%s", fam, btls ? "btls" : "tls"); vclass(cl);
    if (idx < 2) vsample(ctx);
    vcase_done(true);
}

int main(int argc, char **argv)
{
    vparse_args(argc, argv);
    signal(SIGPIPE, SIG_IGN);
    veng_global_init();
    make_pki();
    for (long i = 0; i < va.cases; i++) {
        if (va.only >= 0 && i != va.only) continue;
        if (va.only >= 0) { one_case(i, NULL); continue; }
        vfork_case(i, one_case, NULL, 90, "C18");
        if (vstop_early()) break;
    }
    vsummary(true);
    return 0;
}
