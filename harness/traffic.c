/* traffic.c - workload + monitors for the delivery family of properties:
 *   C01 messaging delivery, C02 byte-stream delivery, C03 send outcome,
 *   C17 counters.  One executable, the property selects transports, workload
 *   emphasis and which monitor's rules are reported.
 *
 * Modes of a case:
 *   NB    both ends non-blocking, one scheduler thread interleaves send /
 *         receive(capacity) / finish / await on both ends in any order
 *         (speculative discipline), traffic in one or both directions;
 *   BLK   both ends blocking, sender and receiver in their own threads;
 *   MIXS  blocking sender thread, non-blocking receiver in the scheduler;
 *   MIXR  non-blocking sender in the scheduler, blocking receiver thread.
 * Below XCM (and below OpenSSL) the shim fragments reads/writes and refuses
 * them with EAGAIN according to a per-endpoint plan.
 */
#include "veng.h"

#include <poll.h>
#include <sys/mman.h>
#include <sys/stat.h>
#include "vctl.h"
#include <signal.h>

enum mode { M_NB, M_BLK, M_MIXS, M_MIXR, M_N };
static const char *const mode_name[M_N] = { "nb", "blk", "mix-blocking-sender", "mix-blocking-receiver" };
enum endm { END_QUIESCE, END_CLOSE };
enum prop { P_C01, P_C02, P_C03, P_C17 };
static enum prop prop;

struct tcase {
    long idx; uint64_t sub_seed;
    enum vtp tp; enum mode mode; bool bidir; enum endm endm;
    int nsend;                 /* send attempts per sending side */
    int size_class;            /* 0 tiny, 1 small, 2 record boundary, 3 large, 4 mixed */
    int cap_class;             /* 0 always big, 1 mixed incl. truncating */
    int plan_class;            /* 0 none, 1 fragment, 2 refuse, 3 both, 4 refuse-after-partial */
    bool plan_setup;           /* plan active during establishment too */
    bool odd_sizes;            /* include 0, max+1, huge */
    int eintr_at;              /* C03: inject EINTR at the n-th blocking poll of the sender (0 off) */
    bool ctl_disturb;          /* C03: control interface on; a control client connects while the blocking sender waits and its accept4 fails (EMFILE) */
    bool real_signal;          /* C03: deliver a real SIGUSR1 to the blocked sender */
    bool volume;               /* C17: one long-haul connection moving more than 2^31 bytes */
};

static long cur_case;
static char ctx[512];

/* ------------------------------------------------------------ helpers ---- */
static void setup_plan(struct vs_plan *p, const struct tcase *c, vrng *r)
{
    switch (c->plan_class) {
    case 1: p->frag_send_pct = 70; p->frag_recv_pct = 70; break;
    case 2: p->eagain_send_pct = 25; p->eagain_recv_pct = 25; break;
    case 3: p->frag_send_pct = 60; p->frag_recv_pct = 60; p->eagain_send_pct = 20; p->eagain_recv_pct = 20; break;
    case 4: p->frag_send_pct = 35; p->refuse_after_partial = true; p->frag_max = 3000; break;
    default: break;
    }
    if (c->plan_class && vrnd_p(r, 30)) p->frag_max = 1 + (int)vrnd_n(r, 20000);
    p->max_consec_eagain = 1 + (int)vrnd_n(r, 3);
}

static uint32_t pick_len(const struct tcase *c, vrng *r, bool bytestream, uint32_t maxmsg)
{
    int sc = c->size_class == 4 ? (int)vrnd_n(r, 4) : c->size_class;
    uint32_t len;
    switch (sc) {
    case 0: len = 1 + vrnd_n(r, 5); break;
    case 1: len = 1 + vrnd_n(r, 300); break;
    case 2: { static const uint32_t b[] = { 16383, 16384, 16385, 16379, 16380, 32768, 32767 }; len = b[vrnd_n(r, 7)]; break; }
    default: { static const uint32_t b[] = { 65535, 65534, 65531, 40000, 60000 }; len = vrnd_p(r, 60) ? b[vrnd_n(r, 5)] : 1 + vrnd_n(r, 65535); break; }
    }
    if (!bytestream && len > maxmsg) len = maxmsg;
    if (bytestream && vrnd_p(r, 10)) len = 100000 + vrnd_n(r, 200000);
    return len;
}

static size_t pick_cap(const struct tcase *c, vrng *r, bool bytestream)
{
    if (c->cap_class == 0 || vrnd_p(r, 50)) return bytestream ? 1 + vrnd_n(r, 70000) : 65535;
    switch (vrnd_n(r, 6)) {
    case 0: return 1;
    case 1: return 2 + vrnd_n(r, 6);
    case 2: return 16384;
    case 3: return 1 + vrnd_n(r, 400);
    case 4: return 65535;
    default: return 1 + vrnd_n(r, 65535);
    }
}

/* ---------------------------------------------------- counter monitor ---- */
struct cmon { struct vcnt prev; bool have; };
static struct cmon cm[2];

static void cnt_viol(struct vep *e, const char *rule, const char *fmt, ...)
{
    char msg[500]; va_list ap; va_start(ap, fmt); vsnprintf(msg, sizeof msg, fmt, ap); va_end(ap);
    char key[128]; snprintf(key, sizeof key, "counters:%s:%s", rule, vtp_name[e->tp]);
    vviol(cur_case, "counters", key, veng_detail(ctx), "%s ep%d: %s; %s", vtp_name[e->tp], e->id, msg, ctx);
}

/* e: endpoint; peer: the other end.  single-threaded contexts only */
static void check_counters(struct vep *e, struct vep *peer, int slot, bool quiescent)
{
    if (!e->s) return;
    struct vcnt c;
    if (!vx_read_counters(e, &c)) { cnt_viol(e, "unreadable", "counter attribute not readable: %s", strerror(errno)); return; }
    vobs("counter_reads", 1);
    int n = e->bytestream ? 4 : 8;
    if (cm[slot].have)
        for (int i = 0; i < n; i++)
            if (c.v[i] < cm[slot].prev.v[i]) cnt_viol(e, "decreased", "%s went from %" PRId64 " to %" PRId64, vcnt_name[i], cm[slot].prev.v[i], c.v[i]);
    cm[slot].prev = c; cm[slot].have = true;
    /* indices: 0 to_app_b 1 from_app_b 2 to_lower_b 3 from_lower_b 4 to_app_m 5 from_app_m 6 to_lower_m 7 from_lower_m */
    if (c.v[1] < c.v[2]) cnt_viol(e, "from_app<to_lower", "from_app_bytes %" PRId64 " < to_lower_bytes %" PRId64, c.v[1], c.v[2]);
    if (c.v[3] < c.v[0]) cnt_viol(e, "from_lower<to_app", "from_lower_bytes %" PRId64 " < to_app_bytes %" PRId64, c.v[3], c.v[0]);
    if (!e->bytestream) {
        if (c.v[5] < c.v[6]) cnt_viol(e, "from_app<to_lower", "from_app_msgs %" PRId64 " < to_lower_msgs %" PRId64, c.v[5], c.v[6]);
        if (c.v[7] < c.v[4]) cnt_viol(e, "from_lower<to_app", "from_lower_msgs %" PRId64 " < to_app_msgs %" PRId64, c.v[7], c.v[4]);
    }
    /* application side must equal the harness ledgers */
    int64_t slack_m = e->conn_error_seen ? 1 : 0;          /* accepted, then the flush failed */
    int64_t slack_b = e->conn_error_seen ? 65535 : 0;
    if (c.v[1] < (int64_t)e->bytes_ok || c.v[1] > (int64_t)e->bytes_ok + slack_b)
        cnt_viol(e, "from_app-bytes", "from_app_bytes %" PRId64 " but the application's accepted sends total %" PRIu64, c.v[1], e->bytes_ok);
    if (c.v[0] != (int64_t)e->rx_bytes)
        cnt_viol(e, "to_app-bytes", "to_app_bytes %" PRId64 " but xcm_receive returned %" PRIu64 " bytes in total", c.v[0], e->rx_bytes);
    if (!e->bytestream) {
        if (c.v[5] < e->n_ok || c.v[5] > e->n_ok + slack_m)
            cnt_viol(e, "from_app-msgs", "from_app_msgs %" PRId64 " but %ld sends succeeded", c.v[5], e->n_ok);
        if (c.v[4] != e->n_rx) cnt_viol(e, "to_app-msgs", "to_app_msgs %" PRId64 " but %ld receives succeeded", c.v[4], e->n_rx);
    }
    if (quiescent && peer && peer->s && !e->conn_error_seen && !peer->conn_error_seen) {
        struct vcnt pc;
        if (vx_read_counters(peer, &pc)) {
            vobs("quiescent_counter_checks", 1);
            /* e as sender, peer as receiver */
            if (c.v[2] != (int64_t)e->bytes_ok) cnt_viol(e, "quiescent-to_lower", "idle and flushed: to_lower_bytes %" PRId64 " != bytes accepted %" PRIu64, c.v[2], e->bytes_ok);
            if (pc.v[3] != (int64_t)e->bytes_ok) cnt_viol(peer, "quiescent-from_lower", "idle and flushed: receiver from_lower_bytes %" PRId64 " != bytes the sender had accepted %" PRIu64, pc.v[3], e->bytes_ok);
            if (!e->bytestream) {
                if (c.v[6] != e->n_ok) cnt_viol(e, "quiescent-to_lower", "idle and flushed: to_lower_msgs %" PRId64 " != messages accepted %ld", c.v[6], e->n_ok);
                if (pc.v[7] != e->n_ok) cnt_viol(peer, "quiescent-from_lower", "idle and flushed: receiver from_lower_msgs %" PRId64 " != %ld sent", pc.v[7], e->n_ok);
            }
        }
    }
}

/* --------------------------------------------------------- send/recv ---- */
struct side { struct vep *e, *peer; int budget; int slot; bool done_sending; long refused, eagain_in_a_row; bool backpressure_seen, trunc_seen; bool have_refused; uint64_t refused_id; uint32_t refused_len; bool sealed_refused; bool single; bool allow_other_data_after_sealed; };

static uint32_t ep_maxmsg(struct vep *e)
{ int64_t v = 65535; if (!e->bytestream) vx_get_int64(e, "xcm.max_msg_size", &v); return (uint32_t)v; }

/* returns 1 accepted, 0 refused (EAGAIN), -1 connection broke, -2 odd-size rejection */
static int do_send(struct side *s, const struct tcase *c, vrng *r, uint32_t maxmsg)
{
    struct vep *e = s->e;
    uint64_t len = pick_len(c, r, e->bytestream, maxmsg);
    if (c->volume) len = maxmsg;
    int expect_err = 0;
    if (c->odd_sizes && vrnd_p(r, 12)) {
        switch (vrnd_n(r, 6)) {
        case 4: if (!e->bytestream) { len = (1ull << 32) + 100; expect_err = EMSGSIZE; } break;     /* would be 100 in 32 bits */
        case 5: if (!e->bytestream) { len = vrnd_p(r, 50) ? (1ull << 32) : SIZE_MAX; expect_err = EMSGSIZE; } break;
        case 0: len = 0; expect_err = e->bytestream ? -1 : EINVAL; break;
        case 1: if (!e->bytestream) { len = (uint64_t)maxmsg + 1; expect_err = EMSGSIZE; } break;
        case 2: if (!e->bytestream) { len = 1u << 20; expect_err = EMSGSIZE; } break;
        case 3: if (!e->bytestream) { len = (1ull << 31) + 5; expect_err = EMSGSIZE; } break;
        }
    }
    size_t alloc = len > (1u << 20) ? 64 : (size_t)len;      /* a huge length is refused before the buffer is touched */
    unsigned char *buf = malloc(alloc ? alloc : 1);
    long ai = -1;
    bool same_retry = false;
    if (expect_err == 0 && s->have_refused && vrnd_p(r, 35)) {
        /* the application retries the refused call with the very same data */
        len = s->refused_len; same_retry = true;
        free(buf); alloc = (size_t)len; buf = malloc(alloc ? alloc : 1);
    }
    if (expect_err == 0 || (expect_err == -1)) {
        ai = veng_att_begin(e, (uint32_t)len);
        if (same_retry) { e->att[ai].id = s->refused_id; vobs("retries_with_same_data", 1); }
        else if (s->have_refused) vobs("retries_with_different_data", 1);
        veng_fill(e->key, e->att[ai].id, buf, alloc);
    } else memset(buf, 0x77, alloc ? alloc : 1);
    uint64_t this_id = ai >= 0 ? e->att[ai].id : 0;
    long low_ref0 = e->plan.n_eagain_send + e->plan.n_real_eagain_send;
    struct vcnt before; bool snap = false;
    snap = (prop == P_C03 || prop == P_C17);
    if (snap) vx_read_counters(e, &before);
    int rc = vx_send(e, buf, (size_t)len);
    int se = errno;
    free(buf);
    if (ai >= 0) veng_att_end(e, ai, rc, se);
    char key[128];
    if (expect_err > 0) {
        vobs(expect_err == EINVAL ? "send_zero_len" : "send_oversized", 1);
        if (rc != -1 || se != expect_err) {
            snprintf(key, sizeof key, "send-outcome:odd-size-errno:%s", vtp_name[e->tp]);
            vviol(cur_case, "send-outcome", key, veng_detail(ctx), "%s: xcm_send(len %" PRIu64 ") returned %d errno %d, expected -1/%d; %s", vtp_name[e->tp], len, rc, se, expect_err, ctx);
        }
    } else if (expect_err == -1) {   /* zero length on a byte stream: 0 is the only sensible success */
        if (rc > 0) { snprintf(key, sizeof key, "send-outcome:zero-len-accepted:%s", vtp_name[e->tp]);
            vviol(cur_case, "send-outcome", key, veng_detail(ctx), "%s: xcm_send(len 0) returned %d; %s", vtp_name[e->tp], rc, ctx); }
    } else {
        /* return value contract */
        if (!e->bytestream && rc != 0 && rc != -1) { snprintf(key, sizeof key, "send-outcome:bad-rc:%s", vtp_name[e->tp]);
            vviol(cur_case, "send-outcome", key, veng_detail(ctx), "%s: xcm_send returned %d on a messaging socket; %s", vtp_name[e->tp], rc, ctx); }
        if (e->bytestream && (rc == 0 || rc > (int64_t)len || rc < -1)) { snprintf(key, sizeof key, "send-outcome:bad-rc:%s", vtp_name[e->tp]);
            vviol(cur_case, "send-outcome", key, veng_detail(ctx), "%s: xcm_send(len %" PRIu64 ") returned %d; %s", vtp_name[e->tp], len, rc, ctx); }
        if (e->bytestream && rc > 0 && rc < (int64_t)len) vobs("partial_acceptance", 1);
    }
    int result;
    if (vtp_is_tls(e->tp) && ai >= 0 && rc < 0 && se == EAGAIN && e->plan.n_eagain_send + e->plan.n_real_eagain_send > low_ref0) vobs("send_refused_while_write_below_openssl_refused", 1);
    if (ai >= 0 && expect_err == 0) {
        if (rc < 0 && (se == EAGAIN || se == EINTR)) { s->have_refused = true; s->refused_id = this_id; s->refused_len = (uint32_t)len; }
        else s->have_refused = false;
    }
    if (rc >= 0) { result = 1; s->eagain_in_a_row = 0; }
    else if (se == EAGAIN) { result = 0; s->refused++; s->eagain_in_a_row++; if (s->eagain_in_a_row >= 4) s->backpressure_seen = true; vobs("send_refused_eagain", 1); }
    else if (se == EMSGSIZE || se == EINVAL) result = -2;
    else if (se == EINTR) { result = 0; vobs("send_eintr", 1); }
    else result = -1;
    /* a refusal that is not a failure of the connection must leave the counters alone */
    if (snap && rc < 0 && (se == EAGAIN || se == EMSGSIZE || se == EINVAL || se == EINTR)) {
        struct vcnt after;
        if (vx_read_counters(e, &after)) {
            vobs("refusal_counter_snapshots", 1);
            int n = e->bytestream ? 4 : 8;
            for (int i = 0; i < n; i++) {
                /* a refused send may still have flushed more of the previous frame: to_lower may move */
                if (i == 2 || i == 6) continue;
                if (after.v[i] != before.v[i]) {
                    snprintf(key, sizeof key, "send-outcome:refusal-counted:%s:%s", vcnt_name[i], vtp_name[e->tp]);
                    vviol(cur_case, "send-outcome", key, veng_detail(ctx), "%s: xcm_send(len %" PRIu64 ") failed with errno %d but %s changed %" PRId64 " -> %" PRId64 "; %s",
                          vtp_name[e->tp], len, se, vcnt_name[i], before.v[i], after.v[i], ctx);
                }
            }
        }
    }
    return result;
}

/* returns >0 bytes, 0 closed, -1 EAGAIN, -2 error */
static int do_recv(struct side *s, const struct tcase *c, vrng *r)
{
    struct vep *e = s->e;
    size_t cap = pick_cap(c, r, e->bytestream);
    /* now and then the application receives into a very large arena and says so: capacities at and beyond 2^31 and 2^32 (the pages are
     * reserved, not touched) */
    static unsigned char *arena; static const size_t arena_len = (1ull << 32) + (1u << 20);
    bool huge = !c->volume && vrnd_p(r, 1);
    if (huge && !arena) { arena = mmap(NULL, arena_len, PROT_READ | PROT_WRITE, MAP_PRIVATE | MAP_ANONYMOUS | MAP_NORESERVE, -1, 0); if (arena == MAP_FAILED) { arena = NULL; } }
    if (huge && !arena) huge = false;
    if (huge) { static const size_t hc[] = { 1ull << 31, (1ull << 31) + 5, 1ull << 32, (1ull << 32) + 100, 3ull << 30, (1ull << 32) + (1u << 20) - 300, (1ull << 32) + (1u << 20) }; cap = hc[vrnd_n(r, 7)]; vobs("receives_with_capacity_beyond_2G", 1); }
    if (!huge && e->bytestream && !c->volume && vrnd_p(r, 1)) {
        /* a receive with no room at all: nothing can be returned, and nothing may change - least of all may the connection count as closed */
        unsigned char *z = malloc(1); int rc0 = vx_receive(e, z, 0); int se0 = errno; free(z);
        vobs("zero_capacity_receives", 1);
        if (!(rc0 == 0 || (rc0 < 0 && se0 == EAGAIN)) && !(rc0 < 0 && veng_is_conn_errno(se0))) { char k0[96]; snprintf(k0, sizeof k0, "delivery:over-capacity:%s", vtp_name[e->tp]); vviol(cur_case, "delivery", k0, veng_detail(ctx), "xcm_receive(capacity 0) returned %d errno %d; %s", rc0, se0, ctx); }
        if (rc0 < 0 && veng_is_conn_errno(se0)) { e->term = 2; e->term_errno = se0; return -2; }
    }
    unsigned char *buf = huge ? arena : malloc(cap);
    memset(buf, 0xCD, huge ? 70000 : cap);
    int rc = vx_receive(e, buf, cap);
    int se = errno;
    if (huge) {
        size_t n = rc > 0 ? (size_t)rc : 0;
        if (!e->bytestream && n > 65535) { char k2[96]; snprintf(k2, sizeof k2, "delivery:over-capacity:%s", vtp_name[e->tp]); vviol(cur_case, "delivery", k2, veng_detail(ctx), "xcm_receive(capacity %zu) returned %d, more than any message holds; %s", cap, rc, ctx); n = 65535; rc = 65535; }
        if (n > arena_len) n = arena_len;
        unsigned char *cp = malloc(n + 1); memcpy(cp, arena, n); buf = cp;
        cap = (size_t)1 << 31;           /* for the ledger: nothing may have been cut off */
    }
    char key[128];
    if (rc > 0) {
        if ((size_t)rc > cap) { snprintf(key, sizeof key, "delivery:over-capacity:%s", vtp_name[e->tp]);
            vviol(cur_case, "delivery", key, veng_detail(ctx), "xcm_receive(capacity %zu) returned %d; %s", cap, rc, ctx); rc = (int)cap; }
        veng_rx_add(e, buf, rc, cap);
        if (s->single && e->bytestream && e->rx_stream_len > s->peer->bytes_ok ) {
            snprintf(key, sizeof key, "stream:ahead-of-accepted:%s", vtp_name[e->tp]);
            vviol(cur_case, "delivery", key, veng_detail(ctx), "%s: the receiver holds %zu bytes while the sender's calls have so far reported only %" PRIu64 " bytes accepted (bytes of a call that failed, or is still failing, are in the stream); %s",
                  vtp_name[e->tp], e->rx_stream_len, s->peer->bytes_ok, ctx);
        }
        if (s->single && !e->bytestream && e->n_rx > s->peer->n_ok) {
            snprintf(key, sizeof key, "delivery:ahead-of-accepted:%s", vtp_name[e->tp]);
            vviol(cur_case, "delivery", key, veng_detail(ctx), "%s: %ld messages delivered while only %ld sends have returned success; %s", vtp_name[e->tp], e->n_rx, s->peer->n_ok, ctx);
        }
        if (!e->bytestream && (size_t)rc == cap && cap < 65535) { s->trunc_seen = true; }
        if (e->term == 1) { snprintf(key, sizeof key, "terminal:data-after-close:%s", vtp_name[e->tp]);
            vviol(cur_case, "terminal", key, veng_detail(ctx), "xcm_receive returned %d after it had returned 0; %s", rc, ctx); }
    } else if (rc == 0) { e->term = 1; }
    else if (se != EAGAIN) { e->term = 2; e->term_errno = se; }
    free(buf);
    return rc > 0 ? rc : rc == 0 ? 0 : se == EAGAIN ? -1 : -2;
}

/* ------------------------------------------------- threaded participants ---- */
struct thr { struct side *s; const struct tcase *c; uint64_t seed; uint32_t maxmsg; volatile int state; bool close_at_end; pthread_t th; volatile bool in_poll; };

static void sigusr1(int sig) { (void)sig; }

static void *sender_thread(void *arg)
{
    struct thr *t = arg; struct side *s = t->s; vrng r = { t->seed };
    int attempts = 0;
    while (s->budget > 0 && attempts < s->budget * 6 + 50) {
        if (s->budget == 1 && t->close_at_end && prop == P_C02 && !s->e->plan.eintr_fired && vrnd_p(&r, 50)) {
            /* the last call before the close: the layer below refuses the first writes, and a signal arrives during one of the waits that follow
             * (the wait for room, or the wait for the accepted bytes to leave).  Whatever the call reports as accepted must be out before it returns */
            s->e->plan.forced_refusals = 2; s->e->plan.eintr_at = (int)s->e->plan.n_blocking_polls + 1 + (int)vrnd_n(&r, 2); s->e->plan.eintr_fired = false;
            vobs("last_blocking_send_with_refusals_and_a_signal", 1);
        }
        int rc = do_send(s, t->c, &r, t->maxmsg);
        attempts++;
        if (rc == 1 || rc == -2) s->budget--;
        else if (rc == -1) break;
        /* rc == 0: EINTR (or EAGAIN, impossible when blocking): the application re-sends the same kind of message */
    }
    s->done_sending = true;
    if (t->close_at_end) vx_close(s->e);
    t->state = 2;
    return NULL;
}

static void *receiver_thread(void *arg)
{
    struct thr *t = arg; struct side *s = t->s; vrng r = { t->seed };
    for (;;) {
        int rc = do_recv(s, t->c, &r);
        if (rc == 0 || rc == -2) break;
        if (rc == -1) { /* EAGAIN from a blocking receive is illegal */
            char key[96]; snprintf(key, sizeof key, "blocking:eagain:%s", vtp_name[s->e->tp]);
            vviol(cur_case, "blocking", key, veng_detail(ctx), "blocking xcm_receive returned EAGAIN; %s", ctx); break; }
    }
    t->state = 2;
    return NULL;
}

/* ------------------------------------------------------------ the case ---- */
static void gen_case(struct tcase *c, long idx)
{
    memset(c, 0, sizeof *c);
    c->idx = idx; c->sub_seed = vsub_seed(va.seed, (uint64_t)va.worker, (uint64_t)idx);
    vrng r = { c->sub_seed };
    static const enum vtp msg_tps[] = { TP_UX, TP_UXF, TP_TCP, TP_TLS, TP_UTLS_UX, TP_UTLS_TLS, TP_UTLS_FALLBACK, TP_TCP, TP_TLS };
    static const enum vtp bs_tps[] = { TP_BTCP, TP_BTLS };
    long gi = idx * va.nworkers + va.worker;     /* global index: stratify transports and modes */
    switch (prop) {
    case P_C02: c->tp = bs_tps[gi % 2]; break;
    case P_C01: c->tp = msg_tps[gi % 9]; break;
    default: { static const enum vtp all[] = { TP_UX, TP_UXF, TP_TCP, TP_TLS, TP_UTLS_UX, TP_UTLS_TLS, TP_BTCP, TP_BTLS, TP_TCP, TP_TLS, TP_UTLS_FALLBACK };
        c->tp = all[gi % 11]; break; }
    }
    unsigned m = vrnd_n(&r, 100);
    c->mode = m < 55 ? M_NB : m < 75 ? M_BLK : m < 88 ? M_MIXS : M_MIXR;
    c->bidir = c->mode == M_NB && vrnd_p(&r, 50);
    c->endm = (!c->bidir && vrnd_p(&r, 50)) ? END_CLOSE : END_QUIESCE;
    if (c->mode != M_NB) c->endm = END_CLOSE;
    c->size_class = (int)vrnd_n(&r, 5);
    c->nsend = c->size_class >= 2 ? 20 + (int)vrnd_n(&r, 60) : 40 + (int)vrnd_n(&r, 200);
    c->cap_class = (int)vrnd_n(&r, 2);
    c->plan_class = vtp_is_ux(c->tp) ? (vrnd_p(&r, 50) ? 2 : 0) : (int)vrnd_n(&r, 5);
    c->plan_setup = vrnd_p(&r, 30);
    c->odd_sizes = prop == P_C03 || prop == P_C17 || vrnd_p(&r, 20);
    if (prop == P_C17 && gi < (va.thorough ? 2 : 1)) {
        /* counters beyond 2^31: one connection per run on ux and one on tcp */
        c->volume = true; c->tp = gi == 0 ? TP_UX : TP_TCP; c->mode = M_NB; c->bidir = false; c->endm = END_QUIESCE;
        c->size_class = 3; c->nsend = 34000; c->cap_class = 0; c->plan_class = 0; c->plan_setup = false; c->odd_sizes = false;
    }
    if ((prop == P_C03 || prop == P_C02 || prop == P_C01) && c->mode != M_NB && c->mode != M_MIXR && vrnd_p(&r, prop == P_C01 ? 40 : 70)) {
        if (vrnd_p(&r, 75)) { c->eintr_at = 1 + (int)vrnd_n(&r, 10); if (c->plan_class == 0 || c->plan_class == 1) c->plan_class = 2 + (int)vrnd_n(&r, 3); }
        else c->real_signal = true;
    }
    if (prop == P_C03 && (c->mode == M_BLK || c->mode == M_MIXS) && !c->eintr_at && !c->real_signal && vrnd_p(&r, 60)) c->ctl_disturb = true;
}

static void case_json(const struct tcase *c, char *buf, size_t cap)
{
    snprintf(buf, cap, "{\"case\":%ld,\"sub_seed\":\"%" PRIu64 "\",\"transport\":\"%s\",\"mode\":\"%s\",\"bidir\":%d,\"end\":\"%s\",\"sends_per_side\":%d,\"size_class\":%d,\"cap_class\":%d,\"plan_class\":%d,\"plan_during_setup\":%d,\"odd_sizes\":%d,\"eintr_at\":%d,\"real_signal\":%d,\"volume\":%d}",
             c->idx, c->sub_seed, vtp_name[c->tp], mode_name[c->mode], c->bidir, c->endm == END_CLOSE ? "close-after-finish" : "quiesce", c->nsend, c->size_class, c->cap_class, c->plan_class, c->plan_setup, c->odd_sizes, c->eintr_at, c->real_signal, c->volume);
}

/* drive both ends until nothing is owed or the system is quiescent.  returns true if kernel-quiescent */
static bool drain(struct side *sd, const struct tcase *c, vrng *r, bool until_closed_b)
{
    int idle_rounds = 0;
    for (int round = 0; round < 200000; round++) {
        bool progress = false, all_flushed = true;
        for (int i = 0; i < 2; i++) {
            struct side *s = &sd[i];
            if (!s->e->s || s->e->blocking) continue;
            int rc = vx_finish(s->e);
            if (rc < 0 && errno == EAGAIN) all_flushed = false;
            if (s->e->term == 0) {
                for (int k = 0; k < 64; k++) { int rr = do_recv(s, c, r); if (rr > 0) progress = true; else break; }
            }
        }
        bool owed = false;
        for (int i = 0; i < 2; i++) {
            struct vep *tx = sd[i].e, *rx = sd[i].peer;
            if (rx->blocking || !rx->s) continue;
            if (rx->term) continue;
            if (tx->bytestream ? rx->rx_stream_len < tx->bytes_ok : rx->n_rx < tx->n_ok) owed = true;
            if (until_closed_b && rx == sd[1].e && rx->term == 0) owed = true;
        }
        if (!owed && all_flushed) return true;
        if (progress) { idle_rounds = 0; continue; }
        long inq, outq;
        bool kidle = veng_kernel_idle(sd[0].e, sd[1].e, &inq, &outq);
        if (!kidle) { idle_rounds = 0; struct pollfd none; vs_real_poll(&none, 0, 1); if (round > 100000) break; continue; }
        idle_rounds++;
        struct pollfd none; vs_real_poll(&none, 0, 1);
        if (idle_rounds > 40) return true;   /* quiescent for 40 ms with nothing moving: judge now */
    }
    return false;
}


/* ---- one blocking xcm_send of more bytes than an int can count (C02): the call must return a count in 1..len (or -1) and exactly that
 * many bytes must arrive; the bytes come from a reserved, untouched (all-zero) area ---- */
struct huge_tx { struct vep *e; unsigned char *area; size_t len; volatile int done; int rc, err; };
static void *huge_sender(void *arg)
{
    struct huge_tx *h = arg;
    struct vs_scope sc = { .active = true, .nonblocking = false, .api = "xcm_send", .ep = h->e->id, .plan = &h->e->plan };
    vs_enter(&sc); errno = 0; h->rc = xcm_send(h->e->s, h->area, h->len); h->err = errno; vs_leave();
    h->done = 1;
    return NULL;
}

static void huge_send_case(long idx, enum vtp tp, size_t len)
{
    cur_case = idx;
    snprintf(ctx, sizeof ctx, "{\"case\":%ld,\"transport\":\"%s\",\"mode\":\"one blocking xcm_send\",\"len\":%zu}", idx, vtp_name[tp], len);
    VLOG("case %s", ctx);
    struct vep A, B, S; veng_ep_init(&A, 0, tp, 11); veng_ep_init(&B, 1, tp, 12); veng_ep_init(&S, 2, tp, 13);
    A.plan.quiet = B.plan.quiet = true;
    char why[256] = ""; struct vpair_opts po = { .user_timeout = 120 };
    if (veng_pair(tp, &A, &B, &S, &po, why, sizeof why) < 0) { vobs("setup_failed", 1); if (A.s) vx_close(&A); if (B.s) vx_close(&B); if (S.s) vx_close(&S); vcase_done(false); return; }
    size_t alen = ((size_t)1 << 33);
    unsigned char *area = mmap(NULL, alen, PROT_READ, MAP_PRIVATE | MAP_ANONYMOUS | MAP_NORESERVE, -1, 0);
    if (area == MAP_FAILED || vx_set_blocking(&A, true) < 0) { vobs("setup_failed", 1); vx_close(&A); vx_close(&B); vx_close(&S); vcase_done(false); return; }
    struct huge_tx h = { .e = &A, .area = area, .len = len };
    pthread_t th; pthread_create(&th, NULL, huge_sender, &h);
    static unsigned char rb[1 << 20], zero[1 << 20];
    unsigned long long got = 0; bool nonzero = false, closed_us = false; int term = 0, term_errno = 0;
    double last_progress = vnow();
    for (;;) {
        int n = vx_receive(&B, rb, sizeof rb); int se = errno;
        if (n > 0) { if (memcmp(rb, zero, (size_t)n)) nonzero = true; got += (unsigned long long)n; last_progress = vnow(); continue; }
        if (n == 0) { term = 1; break; }
        if (se != EAGAIN) { term = 2; term_errno = se; break; }
        if (h.done && !closed_us) { struct vs_scope sc = { .active = true, .nonblocking = false, .api = "xcm_close", .ep = 0, .plan = &A.plan }; vs_enter(&sc); xcm_close(A.s); vs_leave(); A.s = NULL; closed_us = true; last_progress = vnow(); }
        if (vnow() - last_progress > 30) break;
        struct pollfd none; vs_real_poll(&none, 0, 1);
    }
    char key[128];
    if (!h.done) {
        snprintf(key, sizeof key, "blocking:hang:%s:huge-send", vtp_name[tp]);
        vviol(cur_case, "blocking", key, veng_detail(ctx), "blocking xcm_send(len %zu) has not returned although the receiver has read everything that arrived (%llu bytes) and nothing has moved for 30 s; %s", len, got, ctx);
        vsummary(false); fflush(stdout); _exit(0);
    }
    pthread_join(th, NULL);
    vobs("huge_blocking_sends", 1); vobs_max("max_bytes_in_one_send_call", h.rc > 0 ? h.rc : 0);
    if (!(h.rc == -1 || (h.rc >= 1 && (size_t)h.rc <= len))) {
        snprintf(key, sizeof key, "send-outcome:bad-rc:%s", vtp_name[tp]);
        vviol(cur_case, "send-outcome", key, veng_detail(ctx), "%s: blocking xcm_send(len %zu) returned %d (errno %d); %llu bytes arrived; %s", vtp_name[tp], len, h.rc, h.err, got, ctx);
    } else if (h.rc > 0 && term == 1 && got != (unsigned long long)h.rc) {
        snprintf(key, sizeof key, "stream:%s:%s", got < (unsigned long long)h.rc ? "lost" : "extra", vtp_name[tp]);
        vviol(cur_case, "delivery", key, veng_detail(ctx), "%s: blocking xcm_send(len %zu) reported %d bytes accepted, the sender closed, the receiver got %llu bytes and then end-of-stream; %s", vtp_name[tp], len, h.rc, got, ctx);
    } else if (h.rc > 0 && got > (unsigned long long)h.rc) {
        snprintf(key, sizeof key, "stream:extra:%s", vtp_name[tp]);
        vviol(cur_case, "delivery", key, veng_detail(ctx), "%s: %llu bytes arrived, %d reported accepted; %s", vtp_name[tp], got, h.rc, ctx);
    }
    if (nonzero) { snprintf(key, sizeof key, "stream:altered:%s", vtp_name[tp]); vviol(cur_case, "delivery", key, veng_detail(ctx), "%s: bytes other than the zeros that were sent arrived; %s", vtp_name[tp], ctx); }
    if (term == 2) vobs("close_seen_as_error", 1);
    (void)term_errno;
    if (A.s) vx_close(&A); vx_close(&B); vx_close(&S);
    munmap(area, alen);
    char cl[64]; snprintf(cl, sizeof cl, "huge-send:%s", vtp_name[tp]); vclass(cl); vsig_str(cl);
    vcase_done(true);
}

static void one_case(long idx, void *arg)
{
    (void)arg;
    struct tcase c; gen_case(&c, idx);
    if (prop == P_C02) {
        long gi0 = idx * va.nworkers + va.worker;
        if (gi0 == 0) { huge_send_case(idx, TP_BTCP, ((size_t)1 << 32) + 4096); return; }
        if (gi0 == 1) { huge_send_case(idx, TP_BTLS, ((size_t)1 << 31) + 5); return; }
        if (va.thorough && gi0 == 2) { huge_send_case(idx, TP_BTCP, (size_t)1 << 32); return; }
        if (va.thorough && gi0 == 3) { huge_send_case(idx, TP_BTLS, ((size_t)1 << 32) + 4096); return; }
    }
    cur_case = idx;
    vrng r = { vmix(c.sub_seed ^ 0x5151) };
    char cj[700]; case_json(&c, cj, sizeof cj);
    snprintf(ctx, sizeof ctx, "%s", cj);
    VLOG("case %s", cj);
    struct vep A, B, S;
    veng_ep_init(&A, 0, c.tp, vmix(c.sub_seed ^ 1));
    veng_ep_init(&B, 1, c.tp, vmix(c.sub_seed ^ 2));
    veng_ep_init(&S, 2, c.tp, vmix(c.sub_seed ^ 3));
    setup_plan(&A.plan, &c, &r); setup_plan(&B.plan, &c, &r);
    memset(cm, 0, sizeof cm);
    char why[256] = "";
    static char ctl_dir3[700];
    if (c.ctl_disturb) { snprintf(ctl_dir3, sizeof ctl_dir3, "%s/ctl3-%d", va.dir, (int)getpid()); mkdir(ctl_dir3, 0700); setenv("XCM_CTL", ctl_dir3, 1); vs_ledger_reset(); }
    struct vpair_opts po = { .plan_during_setup = c.plan_setup, .user_timeout = 60 };
    if (veng_pair(c.tp, &A, &B, &S, &po, why, sizeof why) < 0) {
        vobs("setup_failed", 1);
        VLOG("setup failed: %s", why);
        /* a failure to establish under injected faults is not this property's subject, but must be rare */
        char cl[96]; snprintf(cl, sizeof cl, "setup-failed:%s", vtp_name[c.tp]); vclass(cl);
        if (A.s) vx_close(&A); if (B.s) vx_close(&B); if (S.s) vx_close(&S);
        vcase_done(false);
        return;
    }
    uint32_t maxmsg = ep_maxmsg(&A);
    /* who sends: the client or the accepted side */
    bool a_first = vrnd_p(&r, 50);
    struct side sd[2] = { { .e = a_first ? &A : &B, .peer = a_first ? &B : &A, .slot = 0 }, { .e = a_first ? &B : &A, .peer = a_first ? &A : &B, .slot = 1 } };
    sd[0].budget = c.nsend; sd[1].budget = c.bidir ? c.nsend : 0;
    sd[0].single = sd[1].single = c.mode == M_NB;
    sd[0].allow_other_data_after_sealed = sd[1].allow_other_data_after_sealed = vrnd_p(&r, 30);
    bool complete_expected[2] = { true, true }, owed_despite_error[2] = { false, false };
    struct thr ts = { 0 }, tr = { 0 };
    bool ok = true;

    if (c.mode == M_NB) {
        int steps = 0, max_steps = c.nsend * 40 + 2000;
        while ((sd[0].budget > 0 || sd[1].budget > 0) && steps++ < max_steps) {
            struct side *s = &sd[vrnd_n(&r, 2)];
            unsigned a = vrnd_n(&r, 100);
            if (a < 38) { if (s->budget > 0) { int rc = do_send(s, &c, &r, maxmsg); if (rc == 1 || rc == -2) s->budget--; else if (rc == -1) { s->budget = 0; complete_expected[s->slot] = false; } } }
            else if (a < 45) { /* burst until refused */
                for (int k = 0; k < 200 && s->budget > 0; k++) { int rc = do_send(s, &c, &r, maxmsg); if (rc == 1 || rc == -2) s->budget--; else { if (rc == -1) { s->budget = 0; complete_expected[s->slot] = false; } break; } } }
            else if (a < 82) { if (s->e->term == 0) do_recv(s, &c, &r); }
            else if (a < 92) vx_finish(s->e);
            else vx_await(s->e, (int)vrnd_n(&r, 4));
            if (c.volume ? (steps % 97) == 0 : (prop == P_C17 || (prop == P_C03 && (steps % 8) == 0))) { check_counters(sd[0].e, sd[1].e, 0, false); check_counters(sd[1].e, sd[0].e, 1, false); }
            if (vviol_count() > 0) break;
        }
        if (c.endm == END_CLOSE && !vviol_count() && sd[0].e->s && complete_expected[0] && vrnd_p(&r, 60)) {
            /* the last thing the sender does before it flushes and closes meets a socket that takes nothing for a few more writes: what it
             * was told is accepted must still be on the wire before xcm_finish says 0 */
            sd[0].e->plan.forced_refusals = 2 + (int)vrnd_n(&r, 3);
            int rc = do_send(&sd[0], &c, &r, maxmsg);
            if (rc == -1) complete_expected[0] = false;
            vobs(rc == 1 ? "last_send_accepted_while_writes_refused" : "last_send_refused_while_writes_refused", 1);
        }
        A.plan.quiet = true; B.plan.quiet = true;
        if (c.endm == END_QUIESCE) {
            bool q = drain(sd, &c, &r, false);
            if (!q) { vobs("drain_gave_up", 1); ok = false; }
            else if (prop == P_C17 || prop == P_C03) { check_counters(sd[0].e, sd[1].e, 0, true); check_counters(sd[1].e, sd[0].e, 1, true); }
        } else {
            /* the sender lets the socket finish its work, closes; the receiver must then get everything, then 0 */
            struct side *s = &sd[0];
            int fr = -1;
            for (int k = 0; k < 200000; k++) { fr = vx_finish(s->e); if (fr == 0 || errno != EAGAIN) break; for (int j = 0; j < 16; j++) if (do_recv(&sd[1], &c, &r) <= 0) break; if (k > 200) { struct pollfd none; vs_real_poll(&none, 0, 1); } }
            if (fr != 0) complete_expected[0] = false;
            long sender_inq = 0; veng_kernel_idle(s->e, NULL, &sender_inq, NULL);        /* unread input at close makes the kernel reset the connection: then an error at the receiver is TCP's doing */
            vx_close(s->e);
            if (!vtp_is_tls(c.tp) && sender_inq == 0 && fr == 0 && vrnd_p(&r, 55)) {
                /* the receiver is itself sending when the close arrives: one of its sends notices first.  What the closing side had sent is
                 * still delivered and counted (on the TLS transports this is the known finding of C06 and is left out here) */
                bool broke = false;
                for (int k = 0; k < 300 && !broke; k++) { int rc = do_send(&sd[1], &c, &r, maxmsg); if (rc == -1) broke = true; else if (rc == 0) { if (vx_finish(sd[1].e) < 0 && errno != EAGAIN) broke = true; struct pollfd none; vs_real_poll(&none, 0, 1); } }
                complete_expected[1] = false;
                if (broke) { vobs("receiver_send_noticed_the_close_first", 1); owed_despite_error[0] = true; }      /* the receiver's own failed send changes nothing about what it is owed */
            }
            bool q = drain(sd, &c, &r, true);
            if (!q) { vobs("drain_gave_up", 1); ok = false; }
            else if (prop == P_C17 || prop == P_C03) check_counters(sd[1].e, sd[0].e, 1, false);     /* what the receiver was handed after the close is counted too */
            if (sd[1].e->term == 2 && complete_expected[0] && fr == 0 && sender_inq == 0 && !sd[1].e->n_att) {
                /* xcm_finish said 0, nothing was unread on the sender's side, the receiver never sent: everything accepted is owed whatever the way the end was reported */
                vobs("close_seen_as_error_after_clean_flush", 1); owed_despite_error[0] = true;
            } else if (sd[1].e->term != 1) { complete_expected[0] = false; vobs("close_seen_as_error", 1); } else vobs("close_seen_as_zero", 1);
        }
    } else {
        /* threaded modes, unidirectional sd[0] -> sd[1], sender closes at the end */
        struct sigaction sa = { 0 }; sa.sa_handler = sigusr1; sigaction(SIGUSR1, &sa, NULL);
        bool blk_sender = c.mode == M_BLK || c.mode == M_MIXS, blk_receiver = c.mode == M_BLK || c.mode == M_MIXR;
        if (blk_sender && vx_set_blocking(sd[0].e, true) < 0) ok = false;
        if (blk_receiver && vx_set_blocking(sd[1].e, true) < 0) ok = false;
        if (c.eintr_at) sd[0].e->plan.eintr_at = (int)sd[0].e->plan.n_blocking_polls + c.eintr_at;
        /* the first accept4 made inside one of the sender's calls (it can only be the control interface's) fails for lack of descriptors */
        if (c.ctl_disturb) { struct vs_plan *pl = &sd[0].e->plan; pl->fail_errno = EMFILE; pl->fail_call = VS_ACCEPT; pl->fail_at = (int)pl->n_call[VS_ACCEPT] + 1; pl->fail_fired = false; }
        int ctl_fds[8]; int n_ctl = 0; bool ctl_connected = false;
        ts = (struct thr){ .s = &sd[0], .c = &c, .seed = vmix(c.sub_seed ^ 77), .maxmsg = maxmsg, .close_at_end = true };
        tr = (struct thr){ .s = &sd[1], .c = &c, .seed = vmix(c.sub_seed ^ 78), .maxmsg = maxmsg };
        if (ok && blk_sender) pthread_create(&ts.th, NULL, sender_thread, &ts);
        if (ok && blk_receiver) pthread_create(&tr.th, NULL, receiver_thread, &tr);
        int sig_sent = 0;
        /* scheduler part for the non-blocking participant; the receiver sometimes stalls to build back-pressure */
        double t_end = vnow() + 60;
        while (ok && vnow() < t_end) {
            bool sdone = blk_sender ? ts.state == 2 : sd[0].done_sending;
            bool rdone = blk_receiver ? tr.state == 2 : sd[1].e->term != 0;
            if (sdone && rdone) break;
            if (rdone && !sdone && sd[1].e->s) { sd[1].e->plan.quiet = true; vx_close(sd[1].e); complete_expected[0] = false; }
            if (!blk_sender && !sd[0].done_sending) {
                if (sd[0].budget > 0) { int rc = do_send(&sd[0], &c, &r, maxmsg); if (rc == 1 || rc == -2) sd[0].budget--; else if (rc == -1) { sd[0].budget = 0; complete_expected[0] = false; }
                    else if (vrnd_p(&r, 30)) vx_finish(sd[0].e); }
                else { int fr = vx_finish(sd[0].e); if (fr == 0 || errno != EAGAIN) { if (fr != 0) complete_expected[0] = false; sd[0].e->plan.quiet = true; vx_close(sd[0].e); sd[0].done_sending = true; } }
            }
            if (!blk_receiver && sd[1].e->term == 0) {
                if (vrnd_p(&r, 15)) { struct pollfd none; vs_real_poll(&none, 0, 1 + (int)vrnd_n(&r, 3)); }   /* stall: back-pressure on the sender */
                else for (int k = 0; k < 8; k++) if (do_recv(&sd[1], &c, &r) <= 0) break;
            }
            if (c.ctl_disturb && !ctl_connected && sd[0].e->plan.n_blocking_polls > 1) { n_ctl = vctl_connect_all(ctl_dir3, ctl_fds, NULL, 8); ctl_connected = true; vobs("control_clients_connected_to_a_waiting_sender", 1); }
            if (c.real_signal && blk_sender && sig_sent < 6 && sd[0].e->plan.n_blocking_polls > (sig_sent + 1) * 2) { pthread_kill(ts.th, SIGUSR1); sig_sent++; vobs("real_signals_sent", 1); }
            if (blk_sender && blk_receiver) { struct pollfd none; vs_real_poll(&none, 0, 1); }
        }
        bool hung = false;
        if (ok && blk_sender && ts.state != 2) hung = true;
        if (ok && blk_receiver && tr.state != 2) hung = true;
        if (hung) {
            char key[128]; snprintf(key, sizeof key, "blocking:hang:%s:%s", vtp_name[c.tp], mode_name[c.mode]);
            vviol(cur_case, "blocking", key, veng_detail(ctx), "a blocking call did not return within 60 s although its peer had finished (sender state %d, receiver state %d); %s", ts.state, tr.state, ctx);
            vsummary(false); fflush(stdout); _exit(0);
        }
        if (ok && blk_sender) pthread_join(ts.th, NULL);
        if (ok && blk_receiver) pthread_join(tr.th, NULL);
        if (sd[0].e->conn_error_seen) complete_expected[0] = false;
        if (sd[1].e->term == 2 && blk_sender && complete_expected[0] && !sd[0].e->conn_error_seen && sd[1].e->n_att == 0) {
            /* every blocking xcm_send returned success, the sender closed, the receiver never sent: everything accepted is owed whatever the way the end is seen */
            owed_despite_error[0] = true; vobs("close_seen_as_error_after_clean_flush", 1);
        } else if (sd[1].e->term != 1) { complete_expected[0] = false; vobs("close_seen_as_error", 1); } else vobs("close_seen_as_zero", 1);
        if (sd[0].e->plan.eintr_fired) vobs("eintr_injected", 1);
        if (c.ctl_disturb && sd[0].e->plan.fail_fired) vobs("control_accept_failures_during_blocking_send", 1);
        for (int i = 0; i < n_ctl; i++) close(ctl_fds[i]);
    }

    /* ---- verdicts ---- */
    if (ok) {
        for (int i = 0; i < 2; i++) {
            struct vep *tx = sd[i].e, *rx = sd[i].peer;
            if (tx->n_att == 0) continue;
            bool complete = complete_expected[i] && !tx->conn_error_seen && (owed_despite_error[i] || (!rx->conn_error_seen && rx->term != 2));
            veng_check_delivery(idx, tx, rx, complete, ctx);
            if (complete) vobs("complete_directions", 1); else vobs("prefix_only_directions", 1);
            vobs("messages_accepted", tx->n_ok); vobs("messages_delivered", rx->n_rx);
            long failed = 0; for (long k = 0; k < tx->n_att; k++) if (tx->att[k].state == -1) failed++;
            vobs("failed_sends", failed);
        }
    }
    /* evidence */
    long hs = A.plan.hdr_split_out + A.plan.hdr_split_in + B.plan.hdr_split_out + B.plan.hdr_split_in;
    long fs = A.plan.frame_split_out + A.plan.frame_split_in + B.plan.frame_split_out + B.plan.frame_split_in;
    long rm = A.plan.refused_mid_frame + B.plan.refused_mid_frame;
    long inj = A.plan.n_eagain_send + A.plan.n_eagain_recv + B.plan.n_eagain_send + B.plan.n_eagain_recv;
    long realref = A.plan.n_real_eagain_send + B.plan.n_real_eagain_send;
    vobs("header_splits", hs); vobs("frame_splits", fs); vobs("refused_mid_frame", rm); vobs("injected_eagain", inj);
    vobs("kernel_eagain_on_send", realref);
    vobs("short_writes", A.plan.n_short_send + B.plan.n_short_send); vobs("short_reads", A.plan.n_short_recv + B.plan.n_short_recv);
    bool trunc = sd[0].trunc_seen || sd[1].trunc_seen;
    if (trunc) vobs("cases_with_truncating_receive", 1);
    if (sd[0].backpressure_seen || sd[1].backpressure_seen) vobs("cases_with_backpressure", 1);
    bool nontrivial = hs > 0 || fs > 0 || rm > 0 || inj > 0 || realref > 0 || trunc;
    if (c.volume) { vobs_max("max_bytes_on_one_connection", (long)sd[0].e->bytes_ok); if (sd[0].e->bytes_ok > (1ull << 31)) vobs("connections_beyond_2G", 1); }
    if (prop == P_C03) nontrivial = sd[0].refused + sd[1].refused > 0 || A.plan.eintr_fired || B.plan.eintr_fired;
    char cl[96]; snprintf(cl, sizeof cl, "%s/%s", vtp_name[c.tp], mode_name[c.mode]); vclass(cl);
    if (nontrivial && ok) {
        char sg[200]; snprintf(sg, sizeof sg, "%s|%s|%d|%d|%d|%d|%d|%d%d%d%d%d%d", vtp_name[c.tp], mode_name[c.mode], c.bidir, c.endm, c.plan_class, c.size_class, c.cap_class,
                               hs > 0, fs > 0, rm > 0, trunc, realref > 0, A.plan.eintr_fired || B.plan.eintr_fired);
        vsig_str(sg);
    }
    if (idx == 0 || idx == 1) vsample(cj);
    if (A.s) vx_close(&A); if (B.s) vx_close(&B); if (S.s) vx_close(&S);
    veng_ep_free(&A); veng_ep_free(&B); veng_ep_free(&S);
    vcase_done(nontrivial && ok);
}

int main(int argc, char **argv)
{
    vparse_args(argc, argv);
    if (!strcmp(va.prop, "C01")) prop = P_C01;
    else if (!strcmp(va.prop, "C02")) prop = P_C02;
    else if (!strcmp(va.prop, "C03")) prop = P_C03;
    else prop = P_C17;
    signal(SIGPIPE, SIG_IGN);
    veng_global_init();
    int batch = 8;
    for (long i = 0; i < va.cases; i++) {
        if (va.only >= 0 && i != va.only) continue;
        if (va.only >= 0) { one_case(i, NULL); continue; }
        struct tcase c; gen_case(&c, i);
        char cls[96]; snprintf(cls, sizeof cls, "%s:%s:%s", va.prop, vtp_name[c.tp], mode_name[c.mode]);
        vfork_case(i, one_case, NULL, 150, cls);
        if (vstop_early()) break;
        (void)batch;
    }
    vsummary(true);
    return 0;
}
