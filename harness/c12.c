/* C12 - address strings: make and parse are exact inverses with honest bounds.
 *
 * Oracle: an independent reference codec (below) + must-accept / must-reject
 * sandwich for the parsers + agreement with xcm_addr_is_valid.  All buffers
 * handed to the library are exact-size heap blocks so that ASan's red zone
 * sits at byte `capacity`, and carry canaries behind the expected string. */
#include "vcommon.h"

#include <arpa/inet.h>
#include <ctype.h>
#include <xcm_addr.h>

typedef int (*make_fn)(const struct xcm_addr_host *, unsigned short, char *, size_t);
typedef int (*parse_fn)(const char *, struct xcm_addr_host *, uint16_t *);
typedef int (*make6_fn)(const struct xcm_addr_ip *, unsigned short, char *, size_t);
typedef int (*parse6_fn)(const char *, struct xcm_addr_ip *, uint16_t *);
typedef int (*make4_fn)(in_addr_t, unsigned short, char *, size_t);
typedef int (*parse4_fn)(const char *, in_addr_t *, uint16_t *);

static const struct tp {
    const char *proto; make_fn make; parse_fn parse;
    make6_fn make6; parse6_fn parse6; make4_fn make4; parse4_fn parse4;
} tps[] = {
    { "tcp", xcm_addr_make_tcp, xcm_addr_parse_tcp, xcm_addr_tcp6_make, xcm_addr_tcp6_parse, xcm_addr_tcp_make, xcm_addr_tcp_parse },
    { "tls", xcm_addr_make_tls, xcm_addr_parse_tls, xcm_addr_tls6_make, xcm_addr_tls6_parse, xcm_addr_tls_make, xcm_addr_tls_parse },
    { "utls", xcm_addr_make_utls, xcm_addr_parse_utls, xcm_addr_utls6_make, xcm_addr_utls6_parse, xcm_addr_utls_make, xcm_addr_utls_parse },
    { "sctp", xcm_addr_make_sctp, xcm_addr_parse_sctp, xcm_addr_sctp6_make, xcm_addr_sctp6_parse, NULL, NULL },
    { "btcp", xcm_addr_make_btcp, xcm_addr_parse_btcp, NULL, NULL, NULL, NULL },
    { "btls", xcm_addr_make_btls, xcm_addr_parse_btls, NULL, NULL, NULL, NULL },
};
#define NTP ((int)(sizeof tps / sizeof tps[0]))

typedef int (*uxmake_fn)(const char *, char *, size_t);
typedef int (*uxparse_fn)(const char *, char *, size_t);
static const struct uxtp { const char *proto; uxmake_fn make; uxparse_fn parse; } uxtps[] = {
    { "ux", xcm_addr_make_ux, xcm_addr_parse_ux },
    { "uxf", xcm_addr_make_uxf, xcm_addr_parse_uxf },
    { "ux", xcm_addr_ux_make, xcm_addr_ux_parse },   /* compat aliases */
};
#define NUXTP 3

static long cur_case;
#define CANARY 0xA5

/* ---- reference codec ---- */
enum hk { HK_V4, HK_V6, HK_ANY4, HK_ANY6, HK_NAME, HK_V4MAPPED, HK_N };
static const char *hkname[] = { "v4", "v6", "any4", "any6", "name", "v4mapped" };

static void ref_make(const char *proto, const struct xcm_addr_host *h, uint16_t port_n, char *out, size_t outsz)
{
    char hs[600];
    if (h->type == xcm_addr_type_name)
        snprintf(hs, sizeof hs, "%s", h->name);
    else if (h->ip.family == AF_INET) {
        const unsigned char *b = (const unsigned char *)&h->ip.addr.ip4;
        snprintf(hs, sizeof hs, "%u.%u.%u.%u", b[0], b[1], b[2], b[3]);
    } else {
        char t[INET6_ADDRSTRLEN];
        inet_ntop(AF_INET6, h->ip.addr.ip6, t, sizeof t);
        snprintf(hs, sizeof hs, "[%s]", t);
    }
    unsigned port = ntohs(port_n);
    snprintf(out, outsz, "%s:%s:%u", proto, hs, port);
}

static bool host_eq(const struct xcm_addr_host *a, const struct xcm_addr_host *b)
{
    if (a->type != b->type) return false;
    if (a->type == xcm_addr_type_name) return strcmp(a->name, b->name) == 0;
    if (a->ip.family != b->ip.family) return false;
    if (a->ip.family == AF_INET) return a->ip.addr.ip4 == b->ip.addr.ip4;
    return memcmp(a->ip.addr.ip6, b->ip.addr.ip6, 16) == 0;
}

static void gen_name(vrng *r, char *out, int len)
{
    /* valid DNS name of exactly len characters: labels of [a-z0-9-] separated by dots */
    static const char al[] = "abcdefghijklmnopqrstuvwxyz0123456789-ABCXYZ";
    int i = 0, lab = 0;
    while (i < len) {
        if (lab > 0 && i < len - 1 && (lab >= 63 || vrnd_p(r, 12))) { out[i++] = '.'; lab = 0; continue; }
        out[i++] = al[vrnd_n(r, sizeof al - 1)];
        lab++;
    }
    /* the documented syntax wants an alphanumeric first character; keep it simple */
    if (out[0] == '-') out[0] = 'a';
    out[len] = 0;
}

static void gen_host(vrng *r, int kind, struct xcm_addr_host *h)
{
    memset(h, 0, sizeof *h);
    h->type = xcm_addr_type_ip;
    switch (kind) {
    case HK_V4:
        h->ip.family = AF_INET;
        h->ip.addr.ip4 = (in_addr_t)vrnd(r);
        if (vrnd_p(r, 10)) h->ip.addr.ip4 = htonl(0xFFFFFFFF);
        if (vrnd_p(r, 10)) h->ip.addr.ip4 = htonl(0x01010101);
        break;
    case HK_ANY4: h->ip.family = AF_INET; h->ip.addr.ip4 = INADDR_ANY; break;
    case HK_ANY6: h->ip.family = AF_INET6; break;
    case HK_V6: {
        h->ip.family = AF_INET6;
        for (int i = 0; i < 16; i++) h->ip.addr.ip6[i] = (uint8_t)vrnd(r);
        int z = (int)vrnd_n(r, 4);
        if (z == 1) memset(h->ip.addr.ip6 + 2, 0, 12);        /* :: compression */
        if (z == 2) memset(h->ip.addr.ip6, 0xff, 16);          /* longest textual form */
        if (z == 3) { memset(h->ip.addr.ip6, 0, 15); h->ip.addr.ip6[15] = 1; }
        break; }
    case HK_V4MAPPED:
        h->ip.family = AF_INET6;
        memset(h->ip.addr.ip6, 0, 10); h->ip.addr.ip6[10] = h->ip.addr.ip6[11] = 0xff;
        for (int i = 12; i < 16; i++) h->ip.addr.ip6[i] = (uint8_t)vrnd(r);
        break;
    case HK_NAME: {
        h->type = xcm_addr_type_name;
        int len;
        switch (vrnd_n(r, 5)) {
        case 0: len = 1; break;
        case 1: len = 253; break;
        case 2: len = 252; break;
        default: len = vrnd_range(r, 2, 253); break;
        }
        gen_name(r, h->name, len);
        /* a name that inet_pton would take as IPv4 is not a name */
        struct in_addr t;
        if (inet_pton(AF_INET, h->name, &t) == 1) h->name[0] = 'x';
        break; }
    }
}

static void viol_make(const char *rule, const char *proto, const char *exp, size_t cap, int rc, int err, const char *got)
{
    char key[96], det[1600];
    snprintf(key, sizeof key, "%s:%s", rule, proto);
    snprintf(det, sizeof det, "\"expected\":\"%.600s\",\"capacity\":%zu,\"rc\":%d,\"errno\":%d,\"got\":\"%.600s\"",
             exp, cap, rc, err, got ? got : "");
    vviol(cur_case, rule, key, det, "xcm_addr_make_%s(capacity %zu) for '%s' (length %zu): rc=%d errno=%d got '%.80s'",
          proto, cap, exp, strlen(exp), rc, err, got ? got : "");
}

/* check one make call result against the reference; buf is a heap block of cap+0 bytes */
static void judge_make(const char *rule_pfx, const char *proto, const char *exp, size_t cap, char *buf, int rc, int err, int hk)
{
    size_t L = strlen(exp);
    char sig[96];
    long d = (long)cap - (long)L;
    snprintf(sig, sizeof sig, "make:%s:%s:%s:%s", rule_pfx, proto, hkname[hk],
             d < -1 ? "<<" : d == -1 ? "-1" : d == 0 ? "0" : d == 1 ? "+1" : d == 2 ? "+2" : ">>");
    vsig_str(sig);
    if (cap <= L) {
        vobs("make_too_small", 1);
        if (rc == 0) {
            char got[700] = "";
            if (cap > 0) { size_t n = strnlen(buf, cap); if (n > 600) n = 600; memcpy(got, buf, n); got[n] = 0; }
            viol_make("make-truncated-success", proto, exp, cap, rc, err, got);
        } else if (err != ENAMETOOLONG && err != EINVAL)
            viol_make("make-errno", proto, exp, cap, rc, err, NULL);
    } else {
        vobs("make_fits", 1);
        if (rc != 0) viol_make("make-spurious-failure", proto, exp, cap, rc, err, NULL);
        else if (memcmp(buf, exp, L + 1) != 0) {
            char got[700]; size_t n = strnlen(buf, cap); if (n > 600) n = 600; memcpy(got, buf, n); got[n] = 0;
            viol_make("make-wrong-string", proto, exp, cap, rc, err, got);
        } else {
            for (size_t i = L + 1; i < cap; i++)
                if ((unsigned char)buf[i] != CANARY) { viol_make("make-wrote-beyond-string", proto, exp, cap, rc, err, buf); break; }
        }
    }
}

static const size_t *cap_list(vrng *r, size_t L, int *n)
{
    static size_t caps[10];
    int k = 0;
    caps[k++] = L + 1;         /* exact fit */
    caps[k++] = L;             /* one short: the historical off-by-one */
    if (L >= 1) caps[k++] = L - 1;
    caps[k++] = L + 2;
    caps[k++] = L + 3;
    caps[k++] = 0;
    caps[k++] = vrnd_n(r, (uint32_t)L + 1);
    caps[k++] = 1;
    caps[k++] = L + 1 + vrnd_n(r, 64);
    *n = k;
    return caps;
}

static void do_make_parse(vrng *r, const struct tp *tp, int hk, uint16_t port_h, bool all_caps)
{
    struct xcm_addr_host h;
    gen_host(r, hk, &h);
    uint16_t port_n = htons(port_h);
    char exp[700];
    ref_make(tp->proto, &h, port_n, exp, sizeof exp);
    size_t L = strlen(exp);
    int ncap; const size_t *caps = cap_list(r, L, &ncap);
    if (!all_caps) ncap = 3;
    for (int ci = 0; ci < ncap; ci++) {
        size_t cap = caps[ci];
        char *buf = malloc(cap ? cap : 1);
        memset(buf, CANARY, cap ? cap : 1);
        errno = 0;
        int rc = tp->make(&h, port_n, cap ? buf : buf, cap);
        judge_make("host", tp->proto, exp, cap, buf, rc, errno, hk);
        free(buf);
    }
    /* compat makers */
    if (h.type == xcm_addr_type_ip && tp->make6) {
        size_t cap = caps[vrnd_n(r, 3)];
        char *buf = malloc(cap ? cap : 1); memset(buf, CANARY, cap ? cap : 1);
        errno = 0;
        int rc = tp->make6(&h.ip, port_n, buf, cap);
        judge_make("compat6", tp->proto, exp, cap, buf, rc, errno, hk);
        free(buf);
    }
    if (h.type == xcm_addr_type_ip && h.ip.family == AF_INET && tp->make4) {
        size_t cap = caps[vrnd_n(r, 3)];
        char *buf = malloc(cap ? cap : 1); memset(buf, CANARY, cap ? cap : 1);
        errno = 0;
        int rc = tp->make4(h.ip.addr.ip4, port_n, buf, cap);
        judge_make("compat4", tp->proto, exp, cap, buf, rc, errno, hk);
        free(buf);
    }
    /* must-accept + round trip: parse the canonical string (exact-size heap copy) */
    char *in = strdup(exp);
    struct xcm_addr_host ph; uint16_t pp = 0xdead;
    memset(&ph, 0x5a, sizeof ph);
    errno = 0;
    int prc = tp->parse(in, &ph, &pp);
    vobs("parse_canonical", 1);
    if (prc != 0) {
        char key[64]; snprintf(key, sizeof key, "parse-rejects-canonical:%s:%s", tp->proto, hkname[hk]);
        char det[800]; snprintf(det, sizeof det, "\"input\":\"%.600s\",\"errno\":%d", exp, errno);
        vviol(cur_case, "parse-rejects-canonical", key, det, "xcm_addr_parse_%s('%.100s') = -1 errno %d", tp->proto, exp, errno);
    } else if (!host_eq(&ph, &h) || pp != port_n) {
        char key[64]; snprintf(key, sizeof key, "roundtrip:%s:%s", tp->proto, hkname[hk]);
        char det[800]; snprintf(det, sizeof det, "\"input\":\"%.600s\",\"port_out\":%u,\"port_in\":%u", exp, pp, port_n);
        vviol(cur_case, "roundtrip", key, det, "parse(make(x)) != x for '%.100s' (port %u vs %u)", exp, ntohs(pp), port_h);
    }
    if (!xcm_addr_is_valid(in)) {
        char key[64]; snprintf(key, sizeof key, "isvalid-disagrees:%s", tp->proto);
        vviol(cur_case, "isvalid-disagrees", key, NULL, "xcm_addr_is_valid('%.100s') false but parser accepts", exp);
    }
    if (h.type == xcm_addr_type_ip && tp->parse6) {
        struct xcm_addr_ip ip; uint16_t p6 = 0;
        if (tp->parse6(in, &ip, &p6) != 0 || p6 != port_n || ip.family != h.ip.family ||
            memcmp(&ip.addr, &h.ip.addr, ip.family == AF_INET ? 4 : 16)) {
            char key[64]; snprintf(key, sizeof key, "roundtrip-compat6:%s", tp->proto);
            vviol(cur_case, "roundtrip", key, NULL, "compat *6_parse disagrees on '%.100s'", exp);
        }
    }
    if (h.type == xcm_addr_type_ip && h.ip.family == AF_INET && tp->parse4) {
        in_addr_t a = 0; uint16_t p4 = 0;
        if (tp->parse4(in, &a, &p4) != 0 || p4 != port_n || a != h.ip.addr.ip4) {
            char key[64]; snprintf(key, sizeof key, "roundtrip-compat4:%s", tp->proto);
            vviol(cur_case, "roundtrip", key, NULL, "compat v4 parse disagrees on '%.100s'", exp);
        }
    }
    if (h.type == xcm_addr_type_name && tp->parse6) {
        /* the IP-only compat parsers must refuse names */
        struct xcm_addr_ip ip; uint16_t p6;
        if (tp->parse6(in, &ip, &p6) == 0) {
            char key[64]; snprintf(key, sizeof key, "compat6-accepts-name:%s", tp->proto);
            vviol(cur_case, "parse-accept", key, NULL, "compat *6_parse accepted a DNS name '%.100s'", exp);
        }
    }
    free(in);
}

/* ---- UX / UXF ---- */
static void do_ux(vrng *r, const struct uxtp *t, int nlen)
{
    char name[200];
    static const char al[] = "abcdefghijklmnopqrstuvwxyzABCDEFGHIJKLMNOPQRSTUVWXYZ0123456789/._-:@#%";
    for (int i = 0; i < nlen; i++) name[i] = al[vrnd_n(r, sizeof al - 1)];
    name[nlen] = 0;
    char exp[260]; snprintf(exp, sizeof exp, "%s:%s", t->proto, name);
    size_t L = strlen(exp);
    bool too_long = nlen > 107;
    int ncap; const size_t *caps = cap_list(r, L, &ncap);
    for (int ci = 0; ci < ncap; ci++) {
        size_t cap = caps[ci];
        char *buf = malloc(cap ? cap : 1); memset(buf, CANARY, cap ? cap : 1);
        char *nm = strdup(name);
        errno = 0;
        int rc = t->make(nm, buf, cap);
        int err = errno;
        if (too_long) {
            vobs("ux_name_too_long", 1);
            char sig[64]; snprintf(sig, sizeof sig, "uxmake-long:%s", t->proto); vsig_str(sig);
            if (rc == 0 || (err != EINVAL && err != ENAMETOOLONG))
                viol_make("uxmake-accepts-overlong-name", t->proto, exp, cap, rc, err, NULL);
        } else
            judge_make("ux", t->proto, exp, cap, buf, rc, err, HK_NAME);
        free(nm); free(buf);
    }
    /* parse */
    char *in = strdup(exp);
    for (int k = 0; k < 4; k++) {
        size_t cap = k == 0 ? (size_t)nlen + 1 : k == 1 ? (size_t)nlen : k == 2 ? 256 : vrnd_n(r, (uint32_t)nlen + 2);
        char *out = malloc(cap ? cap : 1); memset(out, CANARY, cap ? cap : 1);
        errno = 0;
        int rc = t->parse(in, out, cap);
        int err = errno;
        bool must_reject = nlen == 0 || too_long;
        char sig[64]; snprintf(sig, sizeof sig, "uxparse:%s:%d:%d", t->proto, must_reject, cap > (size_t)nlen);
        vsig_str(sig);
        if (must_reject) {
            vobs("parse_must_reject", 1);
            if (rc == 0) {
                char key[64]; snprintf(key, sizeof key, "parse-accept:ux-%s:%s", nlen == 0 ? "empty" : "overlong", t->proto);
                vviol(cur_case, "parse-accept", key, NULL, "xcm_addr_parse_%s accepted a name of length %d", t->proto, nlen);
            }
        } else if (cap > (size_t)nlen) {
            vobs("parse_canonical", 1);
            if (rc != 0 || strcmp(out, name) != 0) {
                char key[64]; snprintf(key, sizeof key, "roundtrip:%s", t->proto);
                vviol(cur_case, "roundtrip", key, NULL, "parse(make(name)) failed for %s name length %d rc=%d errno=%d", t->proto, nlen, rc, err);
            }
        } else {
            if (rc == 0 || (err != ENAMETOOLONG && err != EINVAL)) {
                char key[64]; snprintf(key, sizeof key, "uxparse-small-buffer:%s", t->proto);
                vviol(cur_case, "parse-small-buffer", key, NULL, "parse_%s with capacity %zu for name length %d: rc=%d errno=%d", t->proto, cap, nlen, rc, err);
            }
        }
        free(out);
    }
    bool v = xcm_addr_is_valid(in);
    if (v != (nlen > 0 && !too_long)) {
        char key[64]; snprintf(key, sizeof key, "isvalid-disagrees:%s", t->proto);
        vviol(cur_case, "isvalid-disagrees", key, NULL, "xcm_addr_is_valid(%s name length %d) = %d", t->proto, nlen, v);
    }
    free(in);
}

/* ---- parser sandwich on generated strings ---- */
static bool any_parser_accepts(const char *s, const char **who)
{
    struct xcm_addr_host h; uint16_t p; char nm[700];
    for (int i = 0; i < NTP; i++)
        if (tps[i].parse(s, &h, &p) == 0) { *who = tps[i].proto; return true; }
    if (xcm_addr_parse_ux(s, nm, sizeof nm) == 0) { *who = "ux"; return true; }
    if (xcm_addr_parse_uxf(s, nm, sizeof nm) == 0) { *who = "uxf"; return true; }
    return false;
}

static void check_must_reject(const char *s, const char *cls)
{
    char *in = strdup(s);   /* exact-size heap copy */
    const char *who = NULL;
    vobs("parse_must_reject", 1);
    char sig[96]; snprintf(sig, sizeof sig, "reject:%s", cls); vsig_str(sig);
    if (any_parser_accepts(in, &who)) {
        char key[96]; snprintf(key, sizeof key, "parse-accept:%s", cls);
        char det[900]; FILE *f = fmemopen(det, sizeof det, "w");
        fputs("\"input\":", f); char t[300]; snprintf(t, sizeof t, "%.280s", s); vjson_escape(f, t);
        fprintf(f, ",\"accepted_by\":\"%s\"", who); fclose(f);
        vviol(cur_case, "parse-accept", key, det, "parser %s accepts '%.120s' (class %s) which is outside the documented syntax", who, s, cls);
    }
    if (xcm_addr_is_valid(in)) {
        char key[96]; snprintf(key, sizeof key, "isvalid-accept:%s", cls);
        vviol(cur_case, "parse-accept", key, NULL, "xcm_addr_is_valid accepts '%.120s' (class %s)", s, cls);
    }
    free(in);
}

static void check_agree(const char *s, size_t n)
{
    /* arbitrary bytes: only termination, memory safety and is_valid agreement */
    char *in = malloc(n + 1); memcpy(in, s, n); in[n] = 0;
    const char *who = NULL;
    bool acc = any_parser_accepts(in, &who);
    bool v = xcm_addr_is_valid(in);
    vobs("parse_arbitrary", 1);
    if (acc) vobs("parse_arbitrary_accepted", 1);
    if (acc != v) {
        char det[900]; FILE *f = fmemopen(det, sizeof det, "w");
        fputs("\"input\":", f); char t[300]; snprintf(t, sizeof t, "%.280s", in); vjson_escape(f, t); fclose(f);
        vviol(cur_case, "isvalid-disagrees", "isvalid-disagrees:arbitrary", det, "is_valid=%d but parsers accept=%d (%s) for '%.100s'", v, acc, who ? who : "-", in);
    }
    /* proto parser with small capacities */
    for (size_t cap = 0; cap < 6; cap++) {
        char *pb = malloc(cap ? cap : 1); memset(pb, CANARY, cap ? cap : 1);
        int rc = xcm_addr_parse_proto(in, pb, cap);
        if (rc == 0 && strnlen(pb, cap) >= cap)
            vviol(cur_case, "proto-unterminated", "proto-unterminated", NULL, "xcm_addr_parse_proto(capacity %zu) succeeded without NUL", cap);
        free(pb);
    }
    free(in);
}

static void gen_mutants(vrng *r)
{
    const struct tp *tp = &tps[vrnd_n(r, NTP)];
    struct xcm_addr_host h; gen_host(r, (int)vrnd_n(r, HK_N), &h);
    char host[600], full[1400];
    char base[700]; ref_make(tp->proto, &h, htons(80), base, sizeof base);
    /* isolate host string */
    const char *hs = strchr(base, ':') + 1; size_t hl = strrchr(base, ':') - hs;
    memcpy(host, hs, hl); host[hl] = 0;
    unsigned v = vrnd_n(r, 23);
    switch (v) {
    case 22: { /* the wildcard is the single character '*': anything longer that begins with it is not a host */
        static const char *const w[] = { "*.example.com", "*1.2.3.4", "**", "*]", "*:1.2.3.4", "*a", "*.", "* ", "*[::1]", "*0" };
        snprintf(full, sizeof full, "%s:%s:%u", tp->proto, w[vrnd_n(r, 10)], vrnd_n(r, 65536)); check_must_reject(full, "wildcard-with-a-tail"); break; }
    case 0: snprintf(full, sizeof full, "%s:%s:", tp->proto, host); check_must_reject(full, "port-empty"); break;
    case 1: snprintf(full, sizeof full, "%s:%s", tp->proto, h.type == xcm_addr_type_name || h.ip.family == AF_INET ? host : "[::1]");
            if (!strchr(full + strlen(tp->proto) + 1, ':') || full[strlen(full) - 1] == ']') check_must_reject(full, "port-absent"); break;
    case 2: snprintf(full, sizeof full, "%s:%s:+%u", tp->proto, host, vrnd_n(r, 65536)); check_must_reject(full, "port-plus-sign"); break;
    case 3: snprintf(full, sizeof full, "%s:%s:-%u", tp->proto, host, vrnd_n(r, 65536)); check_must_reject(full, "port-minus-sign"); break;
    case 4: snprintf(full, sizeof full, "%s:%s:%u", tp->proto, host, 65536 + vrnd_n(r, 1000000)); check_must_reject(full, "port-above-65535"); break;
    case 5: { uint64_t k = 1 + vrnd_n(r, 5); uint64_t p = k * 4294967296ULL + vrnd_n(r, 65536);
              snprintf(full, sizeof full, "%s:%s:%" PRIu64, tp->proto, host, p); check_must_reject(full, "port-wraps-2^32"); break; }
    case 6: snprintf(full, sizeof full, "%s:%s:0x%x", tp->proto, host, vrnd_n(r, 65536)); check_must_reject(full, "port-hex"); break;
    case 7: snprintf(full, sizeof full, "%s:%s:%u%c", tp->proto, host, vrnd_n(r, 65536), "abz.,;/"[vrnd_n(r, 7)]); check_must_reject(full, "port-trailing-junk"); break;
    case 8: snprintf(full, sizeof full, "%s::%u", tp->proto, vrnd_n(r, 65536)); check_must_reject(full, "host-empty"); break;
    case 9: { /* whitespace somewhere */
        snprintf(full, sizeof full, "%s:%s:%u", tp->proto, host, vrnd_n(r, 65536));
        size_t n = strlen(full); size_t pos = vrnd_n(r, (uint32_t)n + 1);
        memmove(full + pos + 1, full + pos, n - pos + 1); full[pos] = " \t\n\r\v\f"[vrnd_n(r, 6)];
        check_must_reject(full, "whitespace"); break; }
    case 10: { /* over-long DNS name (254..600) */
        int len = vrnd_range(r, 254, 600); char nm[700]; gen_name(r, nm, len);
        snprintf(full, sizeof full, "%s:%s:%u", tp->proto, nm, vrnd_n(r, 65536)); check_must_reject(full, "name-over-253"); break; }
    case 11: { /* wrong transport prefix for every specific parser: handled by asking the *other* parsers */
        snprintf(full, sizeof full, "%s:%s:%u", tp->proto, host, 4711u);
        char *in = strdup(full); struct xcm_addr_host ph; uint16_t pp;
        for (int i = 0; i < NTP; i++) if (&tps[i] != tp) {
            vobs("parse_must_reject", 1);
            if (tps[i].parse(in, &ph, &pp) == 0) {
                char key[96]; snprintf(key, sizeof key, "parse-accept:wrong-prefix:%s-takes-%s", tps[i].proto, tp->proto);
                vviol(cur_case, "parse-accept", key, NULL, "xcm_addr_parse_%s accepted '%s'", tps[i].proto, full);
            }
        }
        char nm[700];
        if (xcm_addr_parse_ux(in, nm, sizeof nm) == 0 || xcm_addr_parse_uxf(in, nm, sizeof nm) == 0)
            vviol(cur_case, "parse-accept", "parse-accept:wrong-prefix:ux", NULL, "ux/uxf parser accepted '%s'", full);
        vsig_str("reject:wrong-prefix"); free(in); break; }
    case 12: { snprintf(full, sizeof full, "%s:%s:%u", "xyz", host, 80u); check_must_reject(full, "unknown-proto"); break; }
    case 13: { /* total length over the limit with an otherwise fine shape */
        char nm[1300]; int len = vrnd_range(r, 579, 1200); for (int i = 0; i < len; i++) nm[i] = 'a'; nm[len] = 0;
        snprintf(full, sizeof full, "ux:%s", nm); check_must_reject(full, "total-over-limit"); break; }
    case 14: snprintf(full, sizeof full, "%s:[%s:%u", tp->proto, "::1", 80u); check_must_reject(full, "v6-unbalanced-bracket"); break;
    case 15: snprintf(full, sizeof full, "%s:[%s]:%u", tp->proto, "1.2.3.4", 80u); check_must_reject(full, "v4-in-brackets"); break;
    case 16: snprintf(full, sizeof full, "%s:%s:%u", tp->proto, "::1", 80u); check_must_reject(full, "v6-without-brackets"); break;
    case 17: snprintf(full, sizeof full, "%s:%u.%u.%u.%u.%u:%u", tp->proto, 1u, 2u, 3u, 4u, 5u, 80u);
             /* five numeric labels form a syntactically valid DNS name; unconstrained */ check_agree(full, strlen(full)); break;
    case 18: snprintf(full, sizeof full, "%s:%s:%s", tp->proto, host, ""); check_must_reject(full, "port-empty"); break;
    case 19: snprintf(full, sizeof full, "%s:%s:%u.0", tp->proto, host, vrnd_n(r, 65536)); check_must_reject(full, "port-decimal-point"); break;
    case 20: snprintf(full, sizeof full, "%s:%s_x:%u", tp->proto, h.type == xcm_addr_type_name ? host : "ab", 80u); check_must_reject(full, "name-illegal-char"); break;
    case 21: snprintf(full, sizeof full, ":%s:%u", host, 80u); check_must_reject(full, "proto-empty"); break;
    }
}

static void gen_arbitrary(vrng *r)
{
    char s[900]; size_t n;
    unsigned v = vrnd_n(r, 5);
    if (v == 0) { /* random bytes 1..255 */
        n = vrnd_n(r, 80); for (size_t i = 0; i < n; i++) s[i] = (char)(1 + vrnd_n(r, 255));
    } else if (v == 1) { /* random over the address alphabet */
        static const char al[] = "tcplsuxbf:[]*.0123456789abcdef-+ x";
        n = vrnd_n(r, 60); for (size_t i = 0; i < n; i++) s[i] = al[vrnd_n(r, sizeof al - 1)];
    } else { /* mutate a canonical string */
        const struct tp *tp = &tps[vrnd_n(r, NTP)];
        struct xcm_addr_host h; gen_host(r, (int)vrnd_n(r, HK_N), &h);
        ref_make(tp->proto, &h, htons((uint16_t)vrnd(r)), s, sizeof s);
        n = strlen(s);
        int muts = 1 + (int)vrnd_n(r, 3);
        for (int m = 0; m < muts && n > 0; m++) {
            size_t pos = vrnd_n(r, (uint32_t)n);
            switch (vrnd_n(r, 4)) {
            case 0: s[pos] = (char)(1 + vrnd_n(r, 255)); break;
            case 1: memmove(s + pos, s + pos + 1, n - pos - 1); n--; break;
            case 2: if (n < 880) { memmove(s + pos + 1, s + pos, n - pos); s[pos] = ":[]*.09a-"[vrnd_n(r, 9)]; n++; } break;
            case 3: n = pos; break;
            }
        }
    }
    check_agree(s, n);
}

int main(int argc, char **argv)
{
    vparse_args(argc, argv);
    /* cases: one "case" = one port value with all transports/host kinds, or a batch of parser inputs */
    long per = va.cases;
    for (long i = 0; i < per; i++) {
        if (va.only >= 0 && i != va.only) continue;
        cur_case = i;
        vrng r = { vsub_seed(va.seed, (uint64_t)va.worker, (uint64_t)i) };
        /* exhaustive port coverage: worker w owns ports == w (mod nworkers) */
        long pidx = i * va.nworkers + va.worker;
        bool in_port_sweep = pidx < 65536;
        uint16_t port = in_port_sweep ? (uint16_t)pidx : (uint16_t)vrnd(&r);
        if (in_port_sweep) vobs("ports_swept", 1);
        for (int t = 0; t < NTP; t++) {
            if (in_port_sweep || va.thorough) {
                for (int hk = 0; hk < HK_N; hk++)
                    do_make_parse(&r, &tps[t], hk, port, va.thorough || (i % 16) == 0);
            } else
                do_make_parse(&r, &tps[t], (int)vrnd_n(&r, HK_N), port, true);
        }
        /* UX names: lengths 0..110 and some far beyond */
        int nlen = (int)(i % 112);
        if (vrnd_p(&r, 5)) nlen = vrnd_range(&r, 108, 190);
        do_ux(&r, &uxtps[i % NUXTP], nlen);
        int nm = va.thorough ? 40 : 12;
        for (int k = 0; k < nm; k++) gen_mutants(&r);
        for (int k = 0; k < nm; k++) gen_arbitrary(&r);
        vcase_done(true);
        if (i == 0) {
            char s[512]; struct xcm_addr_host h; vrng r2 = r; gen_host(&r2, HK_V6, &h);
            char e[700]; ref_make("tls", &h, htons(port), e, sizeof e);
            snprintf(s, sizeof s, "{\"kind\":\"make/parse\",\"port\":%u,\"canonical\":\"%s\",\"capacities\":\"0,1,len-1,len,len+1,len+2,len+3,random\",\"plus\":\"ux name length %d, %d must-reject mutants, %d arbitrary strings\"}",
                     port, e, nlen, nm, nm);
            vsample(s);
        }
    }
    vsummary(true);
    return 0;
}
