/* c09.c - TLS never fails open (C09).
 *
 * Each case ("cell") is one real handshake between an XCM client and an XCM
 * server of transport tls, btls or utls-over-TLS.  Both sides get a policy
 * {tls.auth, tls.check_time, tls.check_crl, tls.verify_peer_name (+names, or
 * the host name of the address), TLS role via tls.client, trust bundle} - set
 * in the connect map, on the server socket, or in the accept map overriding
 * the server - and present credentials of a generated kind (valid, untrusted
 * root, via trusted / untrusted / revoked / expired intermediate, expired,
 * not yet valid, revoked, wrong name, serverAuth-only, clientAuth-only), by
 * file or by value.  An evaluator computes from the PKI metadata alone
 * whether each side's policy admits the other's credentials.  If it does not,
 * that side must never report xcm_finish()==0, never deliver data, never get
 * a byte to the peer's application, and must report EPROTO.  Where both
 * admit, the connection must come up and carry a message each way (a
 * shortfall there is loss of coverage, counted and floored, not a C09
 * violation).  Inconsistent policies must be refused with EINVAL at creation.
 */
#include "vstate.h"

#include <poll.h>
#include <signal.h>
#include <sys/stat.h>

static long cur_case;
static char ctx[1200];

enum kind { K_OK, K_UNTRUSTED, K_VIA_INTER, K_VIA_UNTRUSTED_INTER, K_EXPIRED, K_NOTYET, K_REVOKED, K_INTER_REVOKED, K_EKU_SERVER_ONLY, K_EKU_CLIENT_ONLY, K_WRONGNAME, K_INTER_EXPIRED, K_UNTRUSTED_LONG_SKI, K_UNTRUSTED_LONG_SUBJECT, K_WILDCARD, K_N };
static const char *const kind_name[K_N] = { "valid", "untrusted-root", "via-trusted-intermediate", "via-untrusted-intermediate", "expired", "not-yet-valid", "revoked", "intermediate-revoked", "eku-serverAuth-only", "eku-clientAuth-only", "wrong-name", "intermediate-expired", "untrusted-root-3000-byte-key-identifier", "untrusted-root-1300-character-subject", "wildcard-name" };

static struct vpki_ent *rootA, *rootB, *interA, *interB, *interR, *interX;
static struct vpki_ent *leaf[K_N];
static char *chain_pem[K_N];          /* what the holder of that credential sends */
static char *crl_all, *crl_all_expired;
static char *tc_A, *tc_B;

static void make_pki(void)
{
    struct vpki_opts o;
    vpki_opts_default(&o); o.is_ca = true; rootA = vpki_make("root-A", NULL, &o); rootB = vpki_make("root-B", NULL, &o);
    interA = vpki_make("inter-A", rootA, &o); interB = vpki_make("inter-B", rootB, &o); interR = vpki_make("inter-R", rootA, &o);
    vpki_opts_default(&o); o.is_ca = true; o.not_before_off = -86400 * 30; o.not_after_off = -86400; interX = vpki_make("inter-X", rootA, &o);
    static const char *good[] = { "peer.verif.test" }, *bad[] = { "other.verif.test" }, *wild[] = { "*.verif.test" };
    for (int k = 0; k < K_N; k++) {
        vpki_opts_default(&o); o.eku = VPKI_EKU_BOTH; o.san_dns = good; o.n_san_dns = 1;
        struct vpki_ent *iss = rootA; const char *cn = "peer.verif.test";
        switch (k) {
        case K_UNTRUSTED: iss = rootB; break;
        case K_VIA_INTER: iss = interA; break;
        case K_VIA_UNTRUSTED_INTER: iss = interB; break;
        case K_EXPIRED: o.not_before_off = -86400 * 10; o.not_after_off = -3600; break;
        case K_NOTYET: o.not_before_off = 86400; o.not_after_off = 86400 * 10; break;
        case K_INTER_REVOKED: iss = interR; break;
        case K_EKU_SERVER_ONLY: o.eku = VPKI_EKU_SERVER; break;
        case K_EKU_CLIENT_ONLY: o.eku = VPKI_EKU_CLIENT; break;
        case K_WRONGNAME: o.san_dns = bad; cn = "other.verif.test"; break;
        case K_INTER_EXPIRED: iss = interX; break;
        case K_WILDCARD: o.san_dns = wild; cn = "*.verif.test"; break;      /* names are compared literally (X509_CHECK_FLAG_NO_WILDCARDS, xcm.h) */
        case K_UNTRUSTED_LONG_SKI: iss = rootB; o.ski_len = 3000; break;            /* what the verification failure is reported about is under the peer's control */
        case K_UNTRUSTED_LONG_SUBJECT: iss = rootB; o.subject_extra_ous = 21; break;
        default: break;
        }
        leaf[k] = vpki_make(cn, iss, &o);
        chain_pem[k] = vpki_chain_pem(leaf[k], true);
    }
    struct vpki_ent *revA[2] = { leaf[K_REVOKED], interR };
    char *cA = vpki_make_crl(rootA, revA, 2, -3600, 86400 * 30), *cB = vpki_make_crl(rootB, NULL, 0, -3600, 86400 * 30);
    char *cIA = vpki_make_crl(interA, NULL, 0, -3600, 86400 * 30), *cIB = vpki_make_crl(interB, NULL, 0, -3600, 86400 * 30);
    char *cIR = vpki_make_crl(interR, NULL, 0, -3600, 86400 * 30), *cIX = vpki_make_crl(interX, NULL, 0, -3600, 86400 * 30);
    char *t1 = vpki_concat(cA, cB), *t2 = vpki_concat(t1, cIA), *t3 = vpki_concat(t2, cIB), *t4 = vpki_concat(t3, cIR); crl_all = vpki_concat(t4, cIX);
    /* the same set with root-A's CRL past its nextUpdate */
    char *cAx = vpki_make_crl(rootA, revA, 2, -86400 * 10, -3600);
    char *u1 = vpki_concat(cAx, cB), *u2 = vpki_concat(u1, cIA), *u3 = vpki_concat(u2, cIB), *u4 = vpki_concat(u3, cIR); crl_all_expired = vpki_concat(u4, cIX);
    free(t1); free(t2); free(t3); free(t4); free(u1); free(u2); free(u3); free(u4); free(cA); free(cB); free(cIA); free(cIB); free(cIR); free(cIX); free(cAx);
    tc_A = strdup(rootA->cert_pem); tc_B = strdup(rootB->cert_pem);
}

struct policy { bool auth, check_time, check_crl, verify_name, crl_expired; int trust; /* 0 root-A, 1 root-B */ bool names_from_addr; bool extra_names; bool explicit_mismatch; /* explicit names matching no certificate, while the address is the certificate's DNS name */ };
struct side { struct policy p; enum kind cred; bool by_value; bool tls_client_role; };

static bool root_is_B(enum kind k) { return k == K_UNTRUSTED || k == K_VIA_UNTRUSTED_INTER || k == K_UNTRUSTED_LONG_SKI || k == K_UNTRUSTED_LONG_SUBJECT; }

/* does X's policy admit Y's credentials, Y playing the given TLS role? */
static bool admits(const struct policy *x, enum kind y, bool y_is_tls_server, char *why, size_t cap)
{
    if (!x->auth) { snprintf(why, cap, "authentication off"); return true; }
    if (root_is_B(y) != (x->trust == 1)) { snprintf(why, cap, "chain does not reach a trusted CA"); return false; }
    bool time_ok = !(y == K_EXPIRED || y == K_NOTYET || y == K_INTER_EXPIRED);
    if (x->check_time && !time_ok) { snprintf(why, cap, "a chain certificate is outside its validity period"); return false; }
    if (x->check_crl) {
        if (y == K_REVOKED || y == K_INTER_REVOKED) { snprintf(why, cap, "a chain certificate is revoked"); return false; }
        if (x->crl_expired && x->check_time && !root_is_B(y)) { snprintf(why, cap, "the CRL is past its nextUpdate"); return false; }
    }
    if (y == K_EKU_SERVER_ONLY && !y_is_tls_server) { snprintf(why, cap, "extended key usage serverAuth only, peer acts as TLS client"); return false; }
    if (y == K_EKU_CLIENT_ONLY && y_is_tls_server) { snprintf(why, cap, "extended key usage clientAuth only, peer acts as TLS server"); return false; }
    if (x->verify_name && (y == K_WRONGNAME || y == K_WILDCARD || x->explicit_mismatch)) { snprintf(why, cap, x->explicit_mismatch ? "the explicit tls.peer_names (which override the address host name) match no name of the certificate" : "no expected name matches"); return false; }
    snprintf(why, cap, "admissible");
    return true;
}

static void cv(const char *rule, const char *who, const char *fmt, ...)
{
    char msg[900]; va_list ap; va_start(ap, fmt); vsnprintf(msg, sizeof msg, fmt, ap); va_end(ap);
    char key[200]; snprintf(key, sizeof key, "tls:%s:%s", rule, who);
    vviol(cur_case, "tls", key, veng_detail(ctx), "%s; %s", msg, ctx);
}

#define SCX(nm, epn) struct vs_scope _sc = { .active = true, .nonblocking = true, .api = nm, .ep = epn, .plan = NULL }; vs_enter(&_sc)

/* put credentials + policy of a side into a map.  which: bit0 credentials, bit1 policy */
static void fill_map(struct xcm_attr_map *m, const struct side *s, const char *dir, const char *tag, int which, bool is_server_side, bool reversed)
{
    if (which & 1) {
        const char *tc = s->p.trust ? tc_B : tc_A; const char *crl = s->p.crl_expired ? crl_all_expired : crl_all;
        if (s->by_value) {
            xcm_attr_map_add_bin(m, "tls.cert", chain_pem[s->cred], strlen(chain_pem[s->cred])); xcm_attr_map_add_bin(m, "tls.key", leaf[s->cred]->key_pem, strlen(leaf[s->cred]->key_pem));
            if (s->p.auth) xcm_attr_map_add_bin(m, "tls.tc", tc, strlen(tc));
            if (s->p.check_crl) xcm_attr_map_add_bin(m, "tls.crl", crl, strlen(crl));
        } else {
            char d[700], p[800]; snprintf(d, sizeof d, "%s/%s", dir, tag);
            vpki_write_dir(d, chain_pem[s->cred], leaf[s->cred]->key_pem, tc, crl);
            snprintf(p, sizeof p, "%s/cert.pem", d); xcm_attr_map_add_str(m, "tls.cert_file", p);
            snprintf(p, sizeof p, "%s/key.pem", d); xcm_attr_map_add_str(m, "tls.key_file", p);
            if (s->p.auth) { snprintf(p, sizeof p, "%s/tc.pem", d); xcm_attr_map_add_str(m, "tls.tc_file", p); }
            if (s->p.check_crl) { snprintf(p, sizeof p, "%s/crl.pem", d); xcm_attr_map_add_str(m, "tls.crl_file", p); }
        }
    }
    if (which & 2) {
        xcm_attr_map_add_bool(m, "tls.auth", s->p.auth);
        xcm_attr_map_add_bool(m, "tls.check_time", s->p.check_time);
        xcm_attr_map_add_bool(m, "tls.check_crl", s->p.check_crl);
        xcm_attr_map_add_bool(m, "tls.verify_peer_name", s->p.verify_name);
        if (s->p.verify_name && s->p.explicit_mismatch && !is_server_side) xcm_attr_map_add_str(m, "tls.peer_names", "nomatch.verif.test:also-not.verif.test");
        else if (s->p.verify_name && !(s->p.names_from_addr && !is_server_side)) xcm_attr_map_add_str(m, "tls.peer_names", s->p.extra_names ? "nomatch.verif.test:peer.verif.test:also-not.verif.test" : "peer.verif.test");
        if (reversed) xcm_attr_map_add_bool(m, "tls.client", is_server_side);
    }
}

struct ccase { enum vtp tp; struct side c, s; int server_policy_where; /* 0 server socket, 1 accept map overrides a lax server socket, 2 accept map overrides a strict one */ bool reversed; bool invalid; int invalid_kind; };

static void gen_policy(struct policy *p, vrng *r)
{
    memset(p, 0, sizeof *p);
    p->auth = vrnd_p(r, 85); p->check_time = vrnd_p(r, 65); p->check_crl = p->auth && vrnd_p(r, 45); p->verify_name = p->auth && vrnd_p(r, 45);
    p->crl_expired = p->check_crl && vrnd_p(r, 20); p->trust = vrnd_p(r, 15) ? 1 : 0; p->extra_names = vrnd_p(r, 40);
}

static void gen_case(struct ccase *c, long idx, vrng *r)
{
    memset(c, 0, sizeof *c);
    long gi = idx * va.nworkers + va.worker;
    static const enum vtp tps[] = { TP_TLS, TP_BTLS, TP_UTLS_TLS };
    c->tp = tps[gi % 3];
    gen_policy(&c->c.p, r); gen_policy(&c->s.p, r);
    /* all-pairs emphasis: the credential kinds walk with the case index */
    c->c.cred = (enum kind)((gi / 3) % K_N); c->s.cred = (enum kind)((gi / 3 / K_N) % K_N);
    if (vrnd_p(r, 55)) c->s.cred = K_OK;           /* so that the client's credentials are what decides */
    else if (vrnd_p(r, 50)) c->c.cred = K_OK;
    c->c.by_value = vrnd_p(r, 50); c->s.by_value = vrnd_p(r, 50);
    c->c.p.names_from_addr = c->c.p.verify_name && vrnd_p(r, 40);
    if (c->c.p.verify_name && !c->c.p.names_from_addr && vrnd_p(r, 30)) c->c.p.explicit_mismatch = true;
    c->server_policy_where = (int)vrnd_n(r, 3);
    c->reversed = vrnd_p(r, 15);
    c->c.tls_client_role = !c->reversed; c->s.tls_client_role = c->reversed;
    if ((gi % 23) == 22) { c->invalid = true; c->invalid_kind = (int)vrnd_n(r, 5); }
}

static void pol_str(const struct policy *p, char *b, size_t cap) { snprintf(b, cap, "auth=%d time=%d crl=%d%s name=%d%s trust=%c", p->auth, p->check_time, p->check_crl, p->crl_expired ? "(expired)" : "", p->verify_name, p->names_from_addr ? "(addr)" : p->explicit_mismatch ? "(explicit-mismatch,dns-addr)" : "", p->trust ? 'B' : 'A'); }

static void one_case(long idx, void *arg)
{
    (void)arg;
    cur_case = idx;
    uint64_t ss = vsub_seed(va.seed, (uint64_t)va.worker, (uint64_t)idx);
    vrng r = { ss };
    struct ccase c; gen_case(&c, idx, &r);
    char pc[100], ps[100]; pol_str(&c.c.p, pc, sizeof pc); pol_str(&c.s.p, ps, sizeof ps);
    snprintf(ctx, sizeof ctx, "{\"case\":%ld,\"sub_seed\":\"%" PRIu64 "\",\"transport\":\"%s\",\"client_policy\":\"%s\",\"client_presents\":\"%s\",\"client_by_value\":%d,\"server_policy\":\"%s\",\"server_presents\":\"%s\",\"server_by_value\":%d,\"server_policy_set\":\"%s\",\"roles_reversed\":%d,\"invalid_combination\":%d}",
             idx, ss, vtp_name[c.tp], pc, kind_name[c.c.cred], c.c.by_value, ps, kind_name[c.s.cred], c.s.by_value, c.server_policy_where == 0 ? "on the server socket" : c.server_policy_where == 1 ? "accept map over a lax server" : "accept map over a strict server", c.reversed, c.invalid ? c.invalid_kind + 1 : 0);
    VLOG("case %s", ctx);
    char dir[600]; snprintf(dir, sizeof dir, "%s/pki-%d", va.dir, (int)getpid()); mkdir(dir, 0700);
    const char *spr = c.tp == TP_BTLS ? "btls" : c.tp == TP_UTLS_TLS ? "utls" : "tls", *cpr = c.tp == TP_BTLS ? "btls" : "tls";
    struct xcm_attr_map *sm = xcm_attr_map_create(), *am = xcm_attr_map_create(), *cm = xcm_attr_map_create();
    xcm_attr_map_add_bool(sm, "xcm.blocking", false); xcm_attr_map_add_bool(cm, "xcm.blocking", false);
    if (c.tp == TP_BTLS) { xcm_attr_map_add_str(sm, "xcm.service", "bytestream"); xcm_attr_map_add_str(cm, "xcm.service", "bytestream"); }
    struct xcm_socket *sv = NULL, *cl = NULL, *ac = NULL;

    if (c.invalid) {
        /* inconsistent policies are refused with EINVAL at creation */
        struct side x = c.c; x.p.trust = 0; x.p.crl_expired = false; x.by_value = vrnd_p(&r, 50);
        const char *what;
        switch (c.invalid_kind) {
        case 0: x.p.auth = false; x.p.check_crl = true; x.p.verify_name = false; what = "tls.auth=false with tls.check_crl=true"; break;
        case 1: x.p.auth = false; x.p.check_crl = false; x.p.verify_name = true; what = "tls.verify_peer_name=true with tls.auth=false"; break;
        case 2: x.p.auth = true; x.p.verify_name = true; x.p.names_from_addr = true; what = "tls.verify_peer_name=true without names (numeric address / server side)"; break;
        case 3: x.p.auth = false; x.p.check_crl = false; x.p.verify_name = false; what = "tls.auth=false with an explicit tls.tc"; break;
        default: x.p.auth = true; x.p.check_crl = false; x.p.verify_name = false; what = "tls.check_crl=false with an explicit tls.crl"; break;
        }
        /* the two halves of an inconsistent policy may also arrive separately: the demanding half on the server socket (consistent on its own),
         * tls.auth=false only in the map given to xcm_accept_a */
        /* (trusted CAs, CRLs or names merely inherited from the server socket and made redundant by the accept map are dropped by design: no error) */
        bool split = (c.invalid_kind == 0 || c.invalid_kind == 1) && vrnd_p(&r, 45);
        if (split) x.p.auth = true;
        struct xcm_attr_map *m = xcm_attr_map_create(); xcm_attr_map_add_bool(m, "xcm.blocking", false); if (c.tp == TP_BTLS) xcm_attr_map_add_str(m, "xcm.service", "bytestream");
        fill_map(m, &x, dir, "inv", 3, false, false);
        if (c.invalid_kind == 2) { xcm_attr_map_del(m, "tls.peer_names"); if (vrnd_p(&r, 50)) { xcm_attr_map_add_str(m, "tls.peer_names", ""); what = "tls.verify_peer_name=true with an empty tls.peer_names"; vobs("invalid_combinations_with_empty_name_list", 1); } }
        if (c.invalid_kind == 3) xcm_attr_map_add_bin(m, "tls.tc", tc_A, strlen(tc_A));
        if (c.invalid_kind == 4) xcm_attr_map_add_bin(m, "tls.crl", crl_all, strlen(crl_all));
        bool on_server = (split || vrnd_p(&r, 50)) && c.invalid_kind != 2;     /* names are only required of the server side when a connection is accepted */
        char a[96]; snprintf(a, sizeof a, "%s:127.0.0.1:%d", on_server ? spr : cpr, on_server ? 0 : 9);
        /* the names to verify may also come from the address: host name in the address, no explicit tls.peer_names */
        if (c.invalid_kind == 1 && !on_server && vrnd_p(&r, 50)) { xcm_attr_map_del(m, "tls.peer_names"); snprintf(a, sizeof a, "%s:inv.c09.verif.test:9", cpr); vobs("invalid_combinations_with_name_from_address", 1); }
        struct xcm_socket *s; int se;
        if (on_server) { SCX("xcm_server_a", 2); s = xcm_server_a(a, m); se = errno; vs_leave(); } else { SCX("xcm_connect_a", 0); s = xcm_connect_a(a, m); se = errno; vs_leave(); }
        vobs("invalid_combinations_tried", 1);
        if (s && on_server) {
            /* a server socket may defer the refusal to the creation of the connection socket: xcm_accept_a must then fail with EINVAL */
            struct side y = c.c; y.p.auth = false; y.p.check_crl = false; y.p.verify_name = false; y.cred = K_OK; y.by_value = true;
            struct xcm_attr_map *ym = xcm_attr_map_create(); xcm_attr_map_add_bool(ym, "xcm.blocking", false); if (c.tp == TP_BTLS) xcm_attr_map_add_str(ym, "xcm.service", "bytestream");
            fill_map(ym, &y, dir, "invc", 3, false, false);
            char ca[96]; snprintf(ca, sizeof ca, "%s:127.0.0.1:%s", cpr, strrchr(xcm_local_addr(s), ':') + 1);
            struct xcm_socket *yc; { SCX("xcm_connect_a", 0); yc = xcm_connect_a(ca, ym); vs_leave(); }
            struct xcm_socket *ya = NULL; int ae = EAGAIN;
            struct xcm_attr_map *am = xcm_attr_map_create(); if (split) { xcm_attr_map_add_bool(am, "tls.auth", false); vobs("invalid_split_server_then_accept_map", 1); }
            for (int i = 0; yc && i < 2000 && !ya && ae == EAGAIN; i++) { { SCX("xcm_finish", 0); xcm_finish(yc); vs_leave(); } SCX("xcm_accept_a", 1); ya = xcm_accept_a(s, am); ae = errno; vs_leave(); if (!ya && ae == EAGAIN) { struct pollfd none; vs_real_poll(&none, 0, 1); } }
            xcm_attr_map_destroy(am);
            if (ya && split) { cv("invalid-combination-accepted", "server-then-accept-map", "%s: the demanding half was set on the server socket, tls.auth=false in the xcm_accept_a map: a connection socket was produced", what); SCX("xcm_close", 1); xcm_close(ya); vs_leave(); }
            else if (ya) { cv("invalid-combination-accepted", "server+accept", "%s was accepted by xcm_server_a and xcm_accept produced a connection socket", what); SCX("xcm_close", 1); xcm_close(ya); vs_leave(); }
            else if (ae != EINVAL) cv("invalid-combination-errno", "server+accept", "%s: xcm_server_a succeeded and xcm_accept failed with errno %d (%s), expected EINVAL", what, ae, strerror(ae));
            else vobs("invalid_combinations_refused_at_accept", 1);
            if (yc) { SCX("xcm_close", 0); xcm_close(yc); vs_leave(); }
            xcm_attr_map_destroy(ym);
            { SCX("xcm_close", 2); xcm_close(s); vs_leave(); }
        }
        else if (s) { cv("invalid-combination-accepted", "connect", "%s was accepted by xcm_connect_a", what); SCX("xcm_close", 0); xcm_close(s); vs_leave(); }
        else if (se != EINVAL) cv("invalid-combination-errno", on_server ? "server" : "connect", "%s refused by %s with errno %d (%s), expected EINVAL", what, on_server ? "xcm_server_a" : "xcm_connect_a", se, strerror(se));
        { char sg[64]; snprintf(sg, sizeof sg, "invalid|%d|%d", c.invalid_kind, on_server); vsig_str(sg); }
        xcm_attr_map_destroy(m);
        goto out;
    }

    /* where the server-side policy is given */
    if (c.server_policy_where == 0) fill_map(sm, &c.s, dir, "srv", 3, true, c.reversed);
    else {
        struct side base = c.s;
        if (c.server_policy_where == 1) { base.p.auth = false; base.p.check_crl = false; base.p.verify_name = false; base.p.check_time = false; }
        else { base.p.auth = true; base.p.check_time = true; base.p.check_crl = true; base.p.crl_expired = false; base.p.verify_name = true; base.p.trust = 0; base.p.extra_names = false; }
        fill_map(sm, &base, dir, "srvbase", 3, true, c.reversed);
        fill_map(am, &c.s, dir, "acc", 3, true, false);       /* the accept map overrides everything, credentials and trust included */
    }
    fill_map(cm, &c.c, dir, "cli", 3, false, c.reversed);
    int port;
    { char a[64]; snprintf(a, sizeof a, "%s:127.0.0.1:0", spr); SCX("xcm_server_a", 2); sv = xcm_server_a(a, sm); int se = errno; vs_leave();
      if (!sv) { vobs("server_creation_failed", 1); VLOG("server_a failed: %s", strerror(se)); goto out; } }
    port = atoi(strrchr(xcm_local_addr(sv), ':') + 1);
    char caddr[96];
    if (c.c.p.names_from_addr || c.c.p.explicit_mismatch) {
        struct vdns_plan dp; memset(&dp, 0, sizeof dp); snprintf(dp.name, sizeof dp.name, "peer.verif.test"); dp.deliver = VDNS_SYNC; vdns_addr4(&dp.addrs[dp.n++], "127.0.0.1");
        vdns_reset(); vdns_enable(true); vdns_set(&dp);
        snprintf(caddr, sizeof caddr, "%s:peer.verif.test:%d", cpr, port);
    } else snprintf(caddr, sizeof caddr, "%s:127.0.0.1:%d", cpr, port);
    { SCX("xcm_connect_a", 0); cl = xcm_connect_a(caddr, cm); int se = errno; vs_leave(); if (!cl) { vobs("client_creation_failed", 1); VLOG("connect_a failed: %s", strerror(se)); goto out; } }

    /* drive */
    bool fin_c = false, fin_a = false; int err_c = 0, err_a = 0, acc_err = 0;
    bool sent_c = false, sent_a = false; long got_c = 0, got_a = 0; bool ok_c_payload = true, ok_a_payload = true;
    unsigned char mc[120], ma[120], rb[400]; veng_fill(1, (uint64_t)idx, mc, sizeof mc); veng_fill(2, (uint64_t)idx, ma, sizeof ma);
    size_t rc_c = 0, rc_a = 0;      /* bytes received by the client / by the accepted side */
    for (int i = 0; i < 6000; i++) {
        if (!ac && !acc_err) { SCX("xcm_accept_a", 1); ac = xcm_accept_a(sv, am); int se = errno; vs_leave(); if (!ac && se != EAGAIN) acc_err = se; }
        if (!err_c) { SCX("xcm_finish", 0); int f = xcm_finish(cl); int se = errno; vs_leave(); if (f == 0) fin_c = true; else if (se != EAGAIN) err_c = se; }
        if (ac && !err_a) { SCX("xcm_finish", 1); int f = xcm_finish(ac); int se = errno; vs_leave(); if (f == 0) fin_a = true; else if (se != EAGAIN) err_a = se; }
        /* speculative sends: a side that must not become usable must not get application data out */
        if (!err_c && !sent_c) { SCX("xcm_send", 0); int s1 = xcm_send(cl, mc, sizeof mc); int se = errno; vs_leave(); if (s1 >= 0) sent_c = true; else if (se != EAGAIN) err_c = se; }
        if (ac && !err_a && !sent_a) { SCX("xcm_send", 1); int s1 = xcm_send(ac, ma, sizeof ma); int se = errno; vs_leave(); if (s1 >= 0) sent_a = true; else if (se != EAGAIN) err_a = se; }
        if (!err_c) { SCX("xcm_receive", 0); int n = xcm_receive(cl, rb, sizeof rb); int se = errno; vs_leave(); if (n > 0) { got_c++; if (rc_c + (size_t)n > sizeof ma || memcmp(rb, ma + rc_c, (size_t)n)) ok_c_payload = false; rc_c += (size_t)n; } else if (n == 0) err_c = -1; else if (se != EAGAIN) err_c = se; }
        if (ac && !err_a) { SCX("xcm_receive", 1); int n = xcm_receive(ac, rb, sizeof rb); int se = errno; vs_leave(); if (n > 0) { got_a++; if (rc_a + (size_t)n > sizeof mc || memcmp(rb, mc + rc_a, (size_t)n)) ok_a_payload = false; rc_a += (size_t)n; } else if (n == 0) err_a = -1; else if (se != EAGAIN) err_a = se; }
        bool c_done = err_c || (fin_c && rc_c >= sizeof ma), a_done = acc_err || err_a || (fin_a && rc_a >= sizeof mc);
        if (c_done && a_done) break;
        if ((err_c || acc_err || err_a) && i > 400) break;          /* one side is dead: give the other a while to notice */
        if (i > 30) { struct pollfd none; vs_real_poll(&none, 0, 1); }
    }
    vobs("cells", 1);
    /* ---- judge, per side ---- */
    char why_c[100], why_a[100];
    bool c_admits = admits(&c.c.p, c.s.cred, !c.reversed, why_c, sizeof why_c);      /* the server plays the TLS server unless reversed */
    bool a_admits = admits(&c.s.p, c.c.cred, c.reversed, why_a, sizeof why_a);
    if (!c_admits) {
        vobs("cells_client_must_reject", 1);
        if (fin_c) cv("fail-open-finish", "client", "client policy [%s] does not admit the server's '%s' credentials (%s), yet xcm_finish returned 0 on the client", pc, kind_name[c.s.cred], why_c);
        else if (got_c) cv("fail-open-delivery", "client", "client policy does not admit the server's '%s' credentials (%s), yet xcm_receive delivered data on the client", kind_name[c.s.cred], why_c);
        else if (rc_a > 0) cv("fail-open-transmit", "client", "client policy does not admit the server's credentials (%s), yet %zu bytes of the client's application data reached the server application", why_c, rc_a);
        else if (err_c != EPROTO) cv("reject-errno", "client", "client rejected the server's '%s' credentials (%s) with errno %d (%s), expected EPROTO", kind_name[c.s.cred], why_c, err_c, err_c > 0 ? strerror(err_c) : err_c == 0 ? "nothing reported" : "close");
        else vobs("rejections_verified", 1);
    }
    if (!a_admits) {
        vobs("cells_server_must_reject", 1);
        if (fin_a) cv("fail-open-finish", "server", "server-side policy [%s] (%s) does not admit the client's '%s' credentials (%s), yet xcm_finish returned 0 on the accepted socket", ps, c.server_policy_where ? "accept map" : "server socket", kind_name[c.c.cred], why_a);
        else if (got_a) cv("fail-open-delivery", "server", "server-side policy does not admit the client's '%s' credentials (%s), yet xcm_receive delivered data on the accepted socket", kind_name[c.c.cred], why_a);
        else if (rc_c > 0) cv("fail-open-transmit", "server", "server-side policy does not admit the client's credentials (%s), yet %zu bytes of the server's application data reached the client application", why_a, rc_c);
        else if (!(err_a == EPROTO || acc_err == EPROTO)) cv("reject-errno", "server", "server side rejected the client's '%s' credentials (%s) with errno %d / accept errno %d, expected EPROTO", kind_name[c.c.cred], why_a, err_a, acc_err);
        else vobs("rejections_verified", 1);
    }
    if (c_admits && a_admits) {
        vobs("cells_both_admit", 1);
        if (fin_c && fin_a && rc_c == sizeof ma && rc_a == sizeof mc && ok_c_payload && ok_a_payload) vobs("admitted_connections_verified", 1);
        else { vobs("admitted_but_not_established", 1); char cl2[160]; snprintf(cl2, sizeof cl2, "shortfall:%s/%s|%s/%s:%d,%d", kind_name[c.c.cred], kind_name[c.s.cred], pc, ps, err_c, err_a); vclass(cl2); }
    }
    { char sg[200]; snprintf(sg, sizeof sg, "%s|%d%d%d%d%d|%s|%d%d%d%d%d|%s|w%d|r%d|%d%d", vtp_name[c.tp], c.c.p.auth, c.c.p.check_time, c.c.p.check_crl, c.c.p.verify_name, c.c.p.trust, kind_name[c.s.cred], c.s.p.auth, c.s.p.check_time, c.s.p.check_crl, c.s.p.verify_name, c.s.p.trust, kind_name[c.c.cred], c.server_policy_where, c.reversed, c_admits, a_admits);
      if (!c_admits || !a_admits) vsig_str(sg); }
out:
    if (cl) { SCX("xcm_close", 0); xcm_close(cl); vs_leave(); }
    if (ac) { SCX("xcm_close", 1); xcm_close(ac); vs_leave(); }
    if (sv) { SCX("xcm_close", 2); xcm_close(sv); vs_leave(); }
    vdns_enable(false);
    xcm_attr_map_destroy(sm); xcm_attr_map_destroy(am); xcm_attr_map_destroy(cm);
    { char cmd[700]; snprintf(cmd, sizeof cmd, "rm -rf '%s'", dir); if (system(cmd)) {} }
    if (idx < 2) vsample(ctx);
    vcase_done(true);
}

int main(int argc, char **argv)
{
    vparse_args(argc, argv);
    signal(SIGPIPE, SIG_IGN);
    veng_global_init();
    make_pki();
    for (long i = 0; i < va.cases; i++) {
        if (va.only >= 0 && i != va.only) continue;
        if (va.only >= 0) { one_case(i, NULL); continue; }
        vfork_case(i, one_case, NULL, 40, "C09");
        if (vstop_early()) break;
    }
    vsummary(true);
    return 0;
}
