#include "vdns.h"

#include <ares.h>
#include <arpa/inet.h>
#include <dlfcn.h>
#include <pthread.h>
#include <stdio.h>
#include <stdlib.h>
#include <string.h>
#include <time.h>

#define MAGIC 0x56444e53u
#define MAXPLANS 64

struct vchan {
    unsigned magic;
    bool pending;
    ares_addrinfo_callback cb; void *arg;
    struct vdns_plan plan; bool have_plan;
    int process_calls;
    double t0;
};

static bool enabled;
#define MAXCH 64
static struct vchan *live[MAXCH];
static struct vdns_plan plans[MAXPLANS];
static int n_plans;
static int n_queries, n_pending, n_callbacks, n_destroyed_pending;
static bool release_all;
static pthread_mutex_t mu = PTHREAD_MUTEX_INITIALIZER;

static double now(void) { struct timespec ts; clock_gettime(CLOCK_MONOTONIC, &ts); return ts.tv_sec + ts.tv_nsec / 1e9; }

void vdns_enable(bool on) { enabled = on; }
void vdns_reset(void) { pthread_mutex_lock(&mu); memset(live, 0, sizeof live); n_plans = 0; n_queries = n_pending = n_callbacks = n_destroyed_pending = 0; release_all = false; pthread_mutex_unlock(&mu); }
void vdns_set(const struct vdns_plan *p)
{
    pthread_mutex_lock(&mu);
    int i; for (i = 0; i < n_plans; i++) if (!strcasecmp(plans[i].name, p->name)) break;
    if (i == n_plans && n_plans < MAXPLANS) n_plans++;
    if (i < MAXPLANS) plans[i] = *p;
    pthread_mutex_unlock(&mu);
}
int vdns_queries(void) { return n_queries; }
int vdns_pending(void) { return n_pending; }
int vdns_callbacks(void) { return n_callbacks; }
int vdns_destroyed_pending(void) { return n_destroyed_pending; }
void vdns_release_all(void) { release_all = true; }
int vdns_scheduled(void)
{
    int n = 0;
    pthread_mutex_lock(&mu);
    for (int i = 0; i < MAXCH; i++) if (live[i] && live[i]->pending && live[i]->have_plan && live[i]->plan.deliver == VDNS_AFTER_MS) n++;
    pthread_mutex_unlock(&mu);
    return n;
}

void vdns_addr4(struct vdns_addr *a, const char *dotted) { memset(a, 0, sizeof *a); a->family = AF_INET; inet_pton(AF_INET, dotted, a->a); }
void vdns_addr6(struct vdns_addr *a, const char *text) { memset(a, 0, sizeof *a); a->family = AF_INET6; inet_pton(AF_INET6, text, a->a); }
void vdns_addr_str(const struct vdns_addr *a, int port, char *out, size_t cap)
{
    char t[64];
    inet_ntop(a->family, a->a, t, sizeof t);
    if (a->family == AF_INET) snprintf(out, cap, "%s:%d", t, port); else snprintf(out, cap, "[%s]:%d", t, port);
}

static struct ares_addrinfo *build(const struct vdns_plan *p)
{
    struct ares_addrinfo *ai = calloc(1, sizeof *ai);
    ai->name = strdup(p->name);
    struct ares_addrinfo_node **tail = &ai->nodes;
    for (int i = 0; i < p->n; i++) {
        struct ares_addrinfo_node *n = calloc(1, sizeof *n);
        n->ai_family = p->addrs[i].family; n->ai_socktype = SOCK_STREAM; n->ai_ttl = 60;
        if (n->ai_family == AF_INET) {
            struct sockaddr_in *sa = calloc(1, sizeof *sa); sa->sin_family = AF_INET; memcpy(&sa->sin_addr, p->addrs[i].a, 4);
            n->ai_addr = (struct sockaddr *)sa; n->ai_addrlen = sizeof *sa;
        } else {
            struct sockaddr_in6 *sa = calloc(1, sizeof *sa); sa->sin6_family = AF_INET6; memcpy(&sa->sin6_addr, p->addrs[i].a, 16);
            n->ai_addr = (struct sockaddr *)sa; n->ai_addrlen = sizeof *sa;
        }
        *tail = n; tail = &n->ai_next;
    }
    return ai;
}

static void complete(struct vchan *c)
{
    if (!c->pending) return;
    c->pending = false;
    pthread_mutex_lock(&mu); n_pending--; n_callbacks++; pthread_mutex_unlock(&mu);
    if (!c->have_plan) { c->cb(c->arg, ARES_ENOTFOUND, 0, NULL); return; }
    if (c->plan.status != 0) c->cb(c->arg, c->plan.status, 0, NULL);
    else if (c->plan.n == 0) c->cb(c->arg, ARES_ENODATA, 0, NULL);
    else c->cb(c->arg, ARES_SUCCESS, 0, build(&c->plan));
}

static bool due(struct vchan *c)
{
    if (!c->pending) return false;
    if (release_all) return true;
    if (!c->have_plan) return true;
    switch (c->plan.deliver) {
    case VDNS_SYNC: return true;
    case VDNS_AFTER_PROCESS: return c->process_calls >= c->plan.after;
    case VDNS_AFTER_MS: return (now() - c->t0) * 1000.0 >= c->plan.after;
    default: return false;
    }
}

#define REAL(name) static __typeof__(name) *real_##name; if (!real_##name) real_##name = dlsym(RTLD_NEXT, #name)
static bool mine(ares_channel ch) { return ch && ((struct vchan *)ch)->magic == MAGIC; }

int ares_init_options(ares_channel *channelptr, struct ares_options *options, int optmask)
{
    REAL(ares_init_options);
    if (!enabled) return real_ares_init_options(channelptr, options, optmask);
    struct vchan *c = calloc(1, sizeof *c);
    c->magic = MAGIC;
    pthread_mutex_lock(&mu); for (int i = 0; i < MAXCH; i++) if (!live[i]) { live[i] = c; break; } pthread_mutex_unlock(&mu);
    *channelptr = (ares_channel)c;
    return ARES_SUCCESS;
}

void ares_getaddrinfo(ares_channel channel, const char *node, const char *service,
                      const struct ares_addrinfo_hints *hints, ares_addrinfo_callback callback, void *arg)
{
    REAL(ares_getaddrinfo);
    if (!mine(channel)) { real_ares_getaddrinfo(channel, node, service, hints, callback, arg); return; }
    struct vchan *c = (struct vchan *)channel;
    c->cb = callback; c->arg = arg; c->pending = true; c->process_calls = 0; c->t0 = now();
    pthread_mutex_lock(&mu);
    n_queries++; n_pending++;
    c->have_plan = false;
    for (int i = 0; i < n_plans; i++) if (!strcasecmp(plans[i].name, node)) { c->plan = plans[i]; c->have_plan = true; break; }
    pthread_mutex_unlock(&mu);
    if (due(c) && (!c->have_plan || c->plan.deliver == VDNS_SYNC)) complete(c);
}

void ares_freeaddrinfo(struct ares_addrinfo *ai)
{
    REAL(ares_freeaddrinfo);
    /* results built by the stub carry a name allocated with strdup and no cnames */
    if (!enabled) { real_ares_freeaddrinfo(ai); return; }
    if (!ai) return;
    struct ares_addrinfo_node *n = ai->nodes;
    while (n) { struct ares_addrinfo_node *nx = n->ai_next; free(n->ai_addr); free(n); n = nx; }
    free(ai->name); free(ai);
}

int ares_getsock(ares_channel channel, ares_socket_t *socks, int numsocks)
{
    REAL(ares_getsock);
    if (!mine(channel)) return real_ares_getsock(channel, socks, numsocks);
    return 0;
}

struct timeval *ares_timeout(ares_channel channel, struct timeval *maxtv, struct timeval *tv)
{
    REAL(ares_timeout);
    if (!mine(channel)) return real_ares_timeout(channel, maxtv, tv);
    struct vchan *c = (struct vchan *)channel;
    if (!c->pending) return maxtv;
    if (release_all) { tv->tv_sec = 0; tv->tv_usec = 1000; return tv; }
    if (!c->have_plan) { tv->tv_sec = 0; tv->tv_usec = 1000; return tv; }
    switch (c->plan.deliver) {
    case VDNS_AFTER_PROCESS: tv->tv_sec = 0; tv->tv_usec = 2000; return tv;
    case VDNS_AFTER_MS: { double left = c->plan.after / 1000.0 - (now() - c->t0); if (left < 0.001) left = 0.001;
        tv->tv_sec = (long)left; tv->tv_usec = (long)((left - (long)left) * 1e6); return tv; }
    case VDNS_NEVER: return maxtv;     /* nothing scheduled: only XCM's own overall timer runs */
    default: tv->tv_sec = 0; tv->tv_usec = 1000; return tv;
    }
}

void ares_process_fd(ares_channel channel, ares_socket_t read_fd, ares_socket_t write_fd)
{
    REAL(ares_process_fd);
    if (!mine(channel)) { real_ares_process_fd(channel, read_fd, write_fd); return; }
}

void ares_process(ares_channel channel, fd_set *read_fds, fd_set *write_fds)
{
    REAL(ares_process);
    if (!mine(channel)) { real_ares_process(channel, read_fds, write_fds); return; }
    struct vchan *c = (struct vchan *)channel;
    c->process_calls++;
    if (due(c)) complete(c);
}

void ares_destroy(ares_channel channel)
{
    REAL(ares_destroy);
    if (!mine(channel)) { real_ares_destroy(channel); return; }
    struct vchan *c = (struct vchan *)channel;
    if (c->pending) {
        c->pending = false;
        pthread_mutex_lock(&mu); n_pending--; n_destroyed_pending++; pthread_mutex_unlock(&mu);
        c->cb(c->arg, ARES_EDESTRUCTION, 0, NULL);
    }
    c->magic = 0;
    pthread_mutex_lock(&mu); for (int i = 0; i < MAXCH; i++) if (live[i] == c) live[i] = NULL; pthread_mutex_unlock(&mu);
    free(c);
}
