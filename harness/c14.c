/* c14.c - the control interface is passive and safe (C14).
 *
 * Owners are server and connection sockets of every transport created with the
 * control interface enabled (XCM_CTL = per-case directory), some with large
 * attribute sets: by-value PEM credentials of several kB, peer certificates
 * with up to 80 subject alternative names, long file paths.  Control clients
 * are a raw AF_UNIX SOCK_SEQPACKET client speaking - and mis-speaking -
 * common/ctl_proto.h, and the libxcmctl client (in a helper thread, because it
 * waits up to 300 ms while the owner must be servicing its socket).
 * Oracles: ASan/UBSan and process survival in the owner; replies to well-formed
 * queries equal what xcm_attr_get / xcm_attr_get_all report in-process in the
 * same quiescent instant (or are a rejection with the same errno), whichever
 * request comes first on a session; the body of tls.key appears in no reply
 * byte; malformed requests are dropped or rejected; the owner's data path
 * still delivers; the control files are gone after close.
 */
#include "vstate.h"
#include "vctl.h"
#include "xcmc.h"

#include <dirent.h>
#include <poll.h>
#include <pthread.h>
#include <signal.h>
#include <sys/socket.h>
#include <sys/stat.h>

static long cur_case;
static char ctx[900];
static char ctl_dir[600];

static void cv(const char *rule, const char *what, const char *fmt, ...)
{
    char msg[1000]; va_list ap; va_start(ap, fmt); vsnprintf(msg, sizeof msg, fmt, ap); va_end(ap);
    char key[200]; snprintf(key, sizeof key, "ctl:%s:%s", rule, what);
    vviol(cur_case, "ctl", key, veng_detail(ctx), "%s; %s", msg, ctx);
}

#define SCX(nm, epn) struct vs_scope _sc = { .active = true, .nonblocking = true, .api = nm, .ep = epn, .plan = NULL }; vs_enter(&_sc)

/* ---- in-process snapshot ---- */
struct ent { char name[256]; enum xcm_attr_type t; size_t len; unsigned char *v; };
struct snap { struct ent e[200]; int n; };
static void snap_cb(const char *name, enum xcm_attr_type type, const void *value, size_t len, void *data)
{ struct snap *s = data; if (s->n >= 200) return; struct ent *e = &s->e[s->n++]; snprintf(e->name, sizeof e->name, "%s", name); e->t = type; e->len = len; e->v = malloc(len ? len : 1); memcpy(e->v, value, len); }
static void snap_take(struct xcm_socket *s, struct snap *sn) { sn->n = 0; SCX("xcm_attr_get_all", 8); xcm_attr_get_all(s, snap_cb, sn); vs_leave(); }
static void snap_free(struct snap *sn) { for (int i = 0; i < sn->n; i++) free(sn->e[i].v); sn->n = 0; }
static struct ent *snap_find(struct snap *sn, const char *n) { for (int i = 0; i < sn->n; i++) if (!strcmp(sn->e[i].name, n)) return &sn->e[i]; return NULL; }
static bool vol(const char *n) { return !strncmp(n, "tcp.rtt", 7) || !strncmp(n, "tcp.total_retrans", 17) || !strncmp(n, "tcp.segs", 8) || strstr(n, "_bytes") || strstr(n, "_msgs"); }

/* the owner services its sockets (that is when control requests are processed) */
struct owner { struct xcm_socket *s[3]; int n; bool bytestream; bool dead[3]; };
/* XCM looks at the control descriptors on every fifth call that would block (or every 257th that succeeds): an idle event loop
 * turn is a receive / accept that reports EAGAIN */
static void owner_service(struct owner *o)
{
    unsigned char b[64];
    for (int k = 0; k < 5; k++) {
        for (int i = 0; i < 2; i++) { SCX("xcm_receive", i); errno = 0; int rc = xcm_receive(o->s[i], b, sizeof b); int se = errno; vs_leave();
            if (rc < 0 && se != EAGAIN && !o->dead[i]) { o->dead[i] = true; cv("data-path-errno", "xcm_receive", "xcm_receive on the owner's healthy, idle connection returned -1 with errno %d (%s) while control sessions were being served (EAGAIN is the only right answer)", se, strerror(se)); } }
        { SCX("xcm_accept", 2); struct xcm_socket *x = xcm_accept(o->s[2]); if (x) xcm_close(x); vs_leave(); }
    }
}

/* a chosen number of single event-loop turns on one socket (the control descriptors are looked at on every fifth) */
static void owner_turns(struct owner *o, struct xcm_socket *s, int turns)
{
    unsigned char b[64];
    for (int k = 0; k < turns; k++) {
        if (s == o->s[2]) { SCX("xcm_accept", 2); struct xcm_socket *x = xcm_accept(s); if (x) xcm_close(x); vs_leave(); }
        else { SCX("xcm_receive", 0); xcm_receive(s, b, sizeof b); vs_leave(); }
    }
}

static const unsigned char *key_body; static size_t key_body_len;     /* a slice of the base64 body of the private key */
static void scan_for_key(const void *buf, size_t len, const char *where)
{
    if (!key_body || len < key_body_len) return;
    if (memmem(buf, len, key_body, key_body_len)) cv("tls-key-disclosed", where, "the body of tls.key occurs in a %s reply", where);
}

/* wait for a reply on a raw client while servicing the owner; returns message size or 0 (nothing within the rounds) or -1 (closed) */
static long raw_wait_reply(int fd, struct owner *o, struct ctl_proto_msg *m, int rounds)
{
    for (int i = 0; i < rounds; i++) {
        owner_service(o);
        long n = vctl_recv(fd, m);
        if (n != 0) return n;
        if (i > 10) { struct pollfd none; vs_real_poll(&none, 0, 1); }
    }
    return 0;
}

static void check_get_reply(struct xcm_socket *os, const char *name, const struct ctl_proto_msg *m, long n, const char *client)
{
    if (n != (long)sizeof *m) { cv("reply-size", client, "reply to get_attr(\"%s\") has %ld bytes, a message has %zu", name, n, sizeof *m); return; }
    scan_for_key(m, sizeof *m, client);
    unsigned char ref[512]; enum xcm_attr_type rt = 0; int rrc, rerr;
    { SCX("xcm_attr_get", 8); errno = 0; rrc = xcm_attr_get(os, name, &rt, ref, sizeof ref); rerr = errno; vs_leave(); }
    if (!strcmp(name, "tls.key")) { rrc = -1; rerr = EACCES; }
    if (m->type == ctl_proto_type_get_attr_cfm) {
        const struct ctl_proto_attr *a = &m->get_attr_cfm.attr;
        if (rrc < 0) cv("reply-differs", client, "get_attr(\"%s\") was confirmed over the control interface but xcm_attr_get fails in-process with errno %d", name, rerr);
        else if (a->value_type != rt || a->value_len != (size_t)rrc || (!vol(name) && memcmp(a->any_value, ref, (size_t)rrc))) cv("reply-differs", client, "get_attr(\"%s\"): control interface says type %d len %zu, xcm_attr_get says type %d len %d (or the bytes differ)", name, a->value_type, a->value_len, rt, rrc);
        else vobs("get_replies_verified", 1);
    } else if (m->type == ctl_proto_type_get_attr_rej) {
        if (rrc >= 0) cv("reply-differs", client, "get_attr(\"%s\") was rejected (errno %d) but xcm_attr_get succeeds in-process (%d bytes)", name, m->get_attr_rej.rej_errno, rrc);
        else if (m->get_attr_rej.rej_errno != rerr) cv("reply-errno", client, "get_attr(\"%s\") rejected with errno %d, xcm_attr_get fails with %d", name, m->get_attr_rej.rej_errno, rerr);
        else vobs("get_rejections_verified", 1);
    } else cv("reply-type", client, "reply to get_attr(\"%s\") has type %d", name, m->type);
}

static void check_get_all_reply(struct xcm_socket *os, const struct ctl_proto_msg *m, long n, const char *client, bool first_on_session)
{
    if (n != (long)sizeof *m) { cv("reply-size", client, "reply to get_all has %ld bytes", n); return; }
    scan_for_key(m, sizeof *m, client);
    if (m->type != ctl_proto_type_get_all_attr_cfm) { cv("get-all-reply-type", first_on_session ? "first-request" : "later-request", "the reply to get_all_attr_req has type %d, expected get_all_attr_cfm (%d)%s", m->type, ctl_proto_type_get_all_attr_cfm, first_on_session ? " - get_all was the first request of the session" : ""); return; }
    const struct ctl_proto_get_all_attr_cfm *c = &m->get_all_attr_cfm;
    if (c->attrs_len > CTL_PROTO_MAX_ATTRS) { cv("get-all-count", client, "attrs_len %zu exceeds the %d entries of the message", c->attrs_len, CTL_PROTO_MAX_ATTRS); return; }
    struct snap *sn = calloc(1, sizeof *sn); snap_take(os, sn);
    for (size_t i = 0; i < c->attrs_len; i++) {
        const struct ctl_proto_attr *a = &c->attrs[i];
        if (!memchr(a->name, 0, sizeof a->name)) { cv("get-all-entry", client, "entry %zu has an unterminated name", i); break; }
        if (a->value_len > CTL_ATTR_VALUE_MAX) { cv("get-all-entry-overflow", a->name, "get_all entry \"%s\" announces value_len %zu, the field holds %d bytes (the value was copied over the following entries)", a->name, a->value_len, CTL_ATTR_VALUE_MAX); break; }
        struct ent *e = snap_find(sn, a->name);
        if (!e) { cv("get-all-entry", client, "get_all lists \"%s\", which xcm_attr_get_all does not report in-process", a->name); break; }
        if (!strcmp(a->name, "tls.key")) { cv("tls-key-disclosed", "get-all-entry", "get_all lists tls.key"); break; }
        if (e->t != a->value_type || e->len != a->value_len || (!vol(a->name) && memcmp(e->v, a->any_value, e->len))) { cv("get-all-entry", client, "get_all entry \"%s\": type %d len %zu; in-process type %d len %zu (or the bytes differ)", a->name, a->value_type, a->value_len, e->t, e->len); break; }
    }
    /* completeness: everything that fits must be there unless the message is full */
    if (c->attrs_len < CTL_PROTO_MAX_ATTRS - 1)
        for (int i = 0; i < sn->n; i++) {
            if (!strcmp(sn->e[i].name, "tls.key") || sn->e[i].len > CTL_ATTR_VALUE_MAX || strlen(sn->e[i].name) >= XCM_ATTR_NAME_MAX) continue;
            bool found = false; for (size_t j = 0; j < c->attrs_len; j++) if (!strcmp(c->attrs[j].name, sn->e[i].name)) found = true;
            if (!found) { cv("get-all-missing", client, "get_all (%zu entries) omits \"%s\" (%zu bytes), which fits", c->attrs_len, sn->e[i].name, sn->e[i].len); break; }
        }
    vobs("get_all_replies_verified", 1); vobs_max("max_get_all_entries", (long)c->attrs_len);
    snap_free(sn); free(sn);
}

/* ---- libxcmctl in a helper thread ---- */
struct xjob { pid_t pid; int64_t ref; int order; /* 0 get first, 1 get_all first */ char name[64]; volatile int done; int rc1, err1, rc2, err2; enum xcm_attr_type t; unsigned char val[600]; int n_all; bool saw_key; };
static void all_cb(const char *name, enum xcm_attr_type type, void *value, size_t len, void *data)
{ struct xjob *j = data; (void)type; j->n_all++; if (!strcmp(name, "tls.key")) j->saw_key = true; if (key_body && len >= key_body_len && memmem(value, len, key_body, key_body_len)) j->saw_key = true; }
static void *xjob_thread(void *arg)
{
    struct xjob *j = arg;
    struct xcmc_session *s = xcmc_open(j->pid, j->ref);
    if (!s) { j->rc1 = j->rc2 = -2; j->err1 = errno; j->done = 1; return NULL; }
    for (int k = 0; k < 2; k++) {
        if ((k == 0) == (j->order == 0)) { errno = 0; j->rc1 = xcmc_attr_get(s, j->name, &j->t, j->val, sizeof j->val); j->err1 = errno; }
        else { errno = 0; j->rc2 = xcmc_attr_get_all(s, all_cb, j); j->err2 = errno; }
    }
    xcmc_close(s);
    j->done = 1;
    return NULL;
}

/* ---- the case ---- */
struct ccase { enum vtp tp; int flavour; /* 0 plain, 1 by-value creds, 2 many SANs, 3 long paths */ int nsan; };

static struct vpki_ent *san_leaf[4]; static const int san_counts[4] = { 1, 12, 40, 80 };


/* ---- the control directory's name has the critical length: "<dir>/ctl-<pid>-<id>" is exactly what a UNIX socket address holds (107
 * characters) or one more.  A name that does not fit is no control socket at all - never a file under a shortened name, which would be the
 * name of another socket ---- */
static int ndigits(long v) { int n = 1; while (v >= 10) { v /= 10; n++; } return n; }
static void critical_ctl_dir_case(vrng *r)
{
    char shortd[700]; snprintf(shortd, sizeof shortd, "%s/ctlp-%d", va.dir, (int)getpid()); mkdir(shortd, 0700);
    setenv("XCM_CTL", shortd, 1); vs_ledger_reset();
    char ua[96]; snprintf(ua, sizeof ua, "ux:c14p-%d", (int)getpid());
    struct xcm_socket *probe = xcm_server(ua); long id0 = -1;
    if (probe) { DIR *d = opendir(shortd); struct dirent *de; while (d && (de = readdir(d))) if (!strncmp(de->d_name, "ctl-", 4)) id0 = atol(strrchr(de->d_name, '-') + 1); if (d) closedir(d); xcm_close(probe); }
    rmdir(shortd);
    if (id0 < 0 || ndigits(id0 + 1) != ndigits(id0 + 3)) { vobs("critical_dir_skipped", 1); return; }
    int total = vrnd_p(r, 50) ? 108 : 107;
    int L = total - (1 + 4 + ndigits((long)getpid()) + 1 + ndigits(id0 + 1));
    char longd[300]; int k = snprintf(longd, sizeof longd, "%s/q", va.dir);
    if (k + 2 > L || L >= (int)sizeof longd) { vobs("critical_dir_skipped", 1); return; }
    while (k < L) longd[k++] = 'q'; longd[k] = 0;
    mkdir(longd, 0700); setenv("XCM_CTL", longd, 1); vs_ledger_reset();
    struct xcm_socket *sv[3] = { 0 };
    for (int i = 0; i < 3; i++) { snprintf(ua, sizeof ua, "ux:c14q-%d-%d", (int)getpid(), i); sv[i] = xcm_server(ua); }
    vobs(total == 108 ? "control_paths_one_too_long" : "control_paths_just_fitting", 1);
    int nfiles = 0; char bad[200] = "";
    { DIR *d = opendir(longd); struct dirent *de;
      while (d && (de = readdir(d))) { if (de->d_name[0] == '.') continue; nfiles++;
          char want[3][64]; bool ok = false; for (int i = 0; i < 3; i++) { snprintf(want[i], 64, "ctl-%d-%ld", (int)getpid(), id0 + 1 + i); if (!strcmp(want[i], de->d_name)) ok = true; }
          if (!ok && !bad[0]) snprintf(bad, sizeof bad, "%s", de->d_name); }
      if (d) closedir(d); }
    if (bad[0]) cv("control-file-name", total == 108 ? "path-one-too-long" : "path-just-fitting", "sockets %ld..%ld of process %d, control directory of %d characters (full paths %d characters): the directory holds '%s', which is not the name of any of them", id0 + 1, id0 + 3, (int)getpid(), L, total, bad);
    else if (total == 107 && nfiles != 3) cv("control-socket-missing", "path-just-fitting", "full control paths of 107 characters fit a UNIX socket address, yet %d of 3 control files exist", nfiles);
    else if (total == 108 && nfiles != 0) cv("control-file-name", "path-one-too-long", "%d control files exist although no full path fits", nfiles);
    for (int i = 0; i < 3; i++) if (sv[i]) xcm_close(sv[i]);
    { DIR *d = opendir(longd); struct dirent *de; int left = 0; while (d && (de = readdir(d))) if (de->d_name[0] != '.') left++; if (d) closedir(d); if (left) cv("control-file-left", "critical-dir", "%d file(s) left in the control directory after the sockets were closed", left); }
    rmdir(longd);
}

static void one_case(long idx, void *arg)
{
    (void)arg;
    cur_case = idx;
    uint64_t ss = vsub_seed(va.seed, (uint64_t)va.worker, (uint64_t)idx);
    vrng r = { ss };
    long gi = idx * va.nworkers + va.worker;
    static const enum vtp tps[] = { TP_UX, TP_UXF, TP_TCP, TP_TLS, TP_UTLS_UX, TP_UTLS_TLS, TP_BTCP, TP_BTLS };
    struct ccase c = { .tp = tps[gi % 8], .flavour = (int)((gi / 8) % 4), .nsan = (int)((gi / 32) % 4) };
    if (!vtp_is_tls(c.tp)) c.flavour = 0;
    snprintf(ctx, sizeof ctx, "{\"case\":%ld,\"sub_seed\":\"%" PRIu64 "\",\"transport\":\"%s\",\"flavour\":\"%s\",\"peer_sans\":%d}", idx, ss, vtp_name[c.tp], c.flavour == 0 ? "plain" : c.flavour == 1 ? "tls-by-value" : c.flavour == 2 ? "many-sans" : "long-paths", c.flavour == 2 ? san_counts[c.nsan] : 0);
    VLOG("case %s", ctx);
    if ((idx % 5) == 4) critical_ctl_dir_case(&r);
    snprintf(ctl_dir, sizeof ctl_dir, "%s/ctl14-%d", va.dir, (int)getpid()); mkdir(ctl_dir, 0700);
    setenv("XCM_CTL", ctl_dir, 1); vs_ledger_reset();
    /* owner sockets */
    struct vep A, B, S; veng_ep_init(&A, 0, c.tp, 1); veng_ep_init(&B, 1, c.tp, 2); veng_ep_init(&S, 2, c.tp, 3);
    struct xcm_attr_map *cm = xcm_attr_map_create(), *sm = xcm_attr_map_create();
    char longdir[700] = "";
    const struct vpki_ent *kleaf = veng_leaf;
    if (c.flavour == 1 || c.flavour == 2) {
        const struct vpki_ent *cl = c.flavour == 2 ? san_leaf[c.nsan] : veng_leaf; kleaf = cl;
        char *chain = vpki_concat(cl->cert_pem, veng_ca->cert_pem);       /* several kB: leaf plus the CA as chain certificate */
        xcm_attr_map_add_bin(cm, "tls.cert", chain, strlen(chain)); xcm_attr_map_add_bin(cm, "tls.key", cl->key_pem, strlen(cl->key_pem)); xcm_attr_map_add_bin(cm, "tls.tc", veng_ca->cert_pem, strlen(veng_ca->cert_pem));
        xcm_attr_map_add_bin(sm, "tls.cert", chain, strlen(chain)); xcm_attr_map_add_bin(sm, "tls.key", cl->key_pem, strlen(cl->key_pem)); xcm_attr_map_add_bin(sm, "tls.tc", veng_ca->cert_pem, strlen(veng_ca->cert_pem));
        free(chain);
    } else if (c.flavour == 3) {
        snprintf(longdir, sizeof longdir, "%s/a-directory-name-that-is-rather-long-to-make-the-credential-file-paths-exceed-one-hundred-characters", va.dir);
        vpki_write_dir(longdir, veng_leaf->cert_pem, veng_leaf->key_pem, veng_ca->cert_pem, NULL);
        char p[900];
        snprintf(p, sizeof p, "%s/cert.pem", longdir); xcm_attr_map_add_str(cm, "tls.cert_file", p); xcm_attr_map_add_str(sm, "tls.cert_file", p);
        snprintf(p, sizeof p, "%s/key.pem", longdir); xcm_attr_map_add_str(cm, "tls.key_file", p); xcm_attr_map_add_str(sm, "tls.key_file", p);
        snprintf(p, sizeof p, "%s/tc.pem", longdir); xcm_attr_map_add_str(cm, "tls.tc_file", p); xcm_attr_map_add_str(sm, "tls.tc_file", p);
    }
    /* a slice of the key's base64 body, to look for in every reply */
    { const char *kb = strchr(kleaf->key_pem, '\n'); static unsigned char slice[48]; if (kb && strlen(kb) > 60) { memcpy(slice, kb + 5, 40); key_body = slice; key_body_len = 40; } }
    struct vpair_opts po = { .conn_attrs = cm, .server_attrs = sm }; char why[200] = "";
    int prc = veng_pair(c.tp, &A, &B, &S, &po, why, sizeof why);
    xcm_attr_map_destroy(cm); xcm_attr_map_destroy(sm);
    if (prc < 0) { vobs("setup_failed", 1); VLOG("setup failed: %s", why); goto out; }
    struct owner ow = { .s = { A.s, B.s, S.s }, .n = 3, .bytestream = A.bytestream };
    char names[8][128]; int nf = 0;
    { DIR *d = opendir(ctl_dir); struct dirent *de; while (d && (de = readdir(d)) && nf < 8) if (!strncmp(de->d_name, "ctl-", 4)) snprintf(names[nf++], 128, "%s", de->d_name); if (d) closedir(d); }
    if (nf < 3) { cv("control-socket-missing", vtp_name[c.tp], "%d control sockets in XCM_CTL for 3 XCM sockets", nf); goto out; }
    vobs("owners", 1);

    /* which control file belongs to which socket: ask for xcm.type and the local address through a session each (ids are process-wide counters) */
    int rounds = va.thorough ? 40 : 14;
    for (int rd = 0; rd < rounds && !vviol_count(); rd++) {
        int which = (int)vrnd_n(&r, (uint32_t)nf);
        char path[800]; snprintf(path, sizeof path, "%s/%s", ctl_dir, names[which]);
        /* the XCM socket behind this control socket: match by xcm.type + addresses */
        int fd = -1;
        for (int t = 0; t < 50 && fd < 0; t++) { fd = vctl_connect_path(path); if (fd < 0) owner_service(&ow); }
        if (fd < 0) { vobs("session_connect_failed", 1); continue; }
        struct ctl_proto_msg *m = malloc(sizeof *m);
        /* socket ids are a process-wide counter and the sockets were created in the order server, client, accepted: with exactly
         * three control files the ascending ids name them.  (utls exposes its sub-sockets, which the public API cannot reach: no value oracle there) */
        struct xcm_socket *os = NULL;
        if (nf == 3 && c.tp != TP_UTLS_UX && c.tp != TP_UTLS_TLS) {
            long ids[3]; for (int i = 0; i < 3; i++) ids[i] = atol(strrchr(names[i], '-') + 1);
            int rank = 0; for (int i = 0; i < 3; i++) if (ids[i] < ids[which]) rank++;
            os = rank == 0 ? S.s : rank == 1 ? A.s : B.s;
        }
        close(fd);
        unsigned act = vrnd_n(&r, 100);
        if (act < 40) {
            /* a raw session: get_all first or a get first, then a few named gets */
            fd = -1; for (int t = 0; t < 50 && fd < 0; t++) { fd = vctl_connect_path(path); if (fd < 0) owner_service(&ow); }
            if (fd < 0) { free(m); continue; }
            bool all_first = vrnd_p(&r, 50);
            for (int q = 0; q < 6 && !vviol_count(); q++) {
                bool do_all = q == 0 ? all_first : vrnd_p(&r, 25);
                const char *nm = NULL; char nb[64];
                if (do_all) vctl_send_get_all(fd);
                else {
                    static const char *const pool[] = { "xcm.type", "xcm.transport", "xcm.service", "xcm.local_addr", "xcm.remote_addr", "xcm.blocking", "xcm.max_msg_size", "xcm.from_app_msgs", "tcp.rtt", "tcp.keepalive", "tcp.user_timeout",
                        "tls.key", "tls.cert", "tls.tc", "tls.cert_file", "tls.key_file", "tls.auth", "tls.peer_names", "tls.peer.cert.subject.cn", "tls.peer_subject_key_id", "tls.peer.cert.san.dns[0]", "tls.peer.cert.san.dns[79]", "tls.peer.cert.san.dns[80]",
                        "no.such.attr", "", "xcm", "tls.peer.cert.san.dns", "dns.algorithm", "ipv6.scope" };
                    nm = pool[vrnd_n(&r, sizeof pool / sizeof pool[0])]; snprintf(nb, sizeof nb, "%s", nm); nm = nb;
                    vctl_send_get(fd, nm);
                }
                long n = raw_wait_reply(fd, &ow, m, 600);
                vobs("wellformed_requests", 1);
                if (n == 0) { cv("no-reply", do_all ? "get-all" : "get", "no reply to a well-formed %s request", do_all ? "get_all" : "get_attr"); break; }
                if (n < 0) { cv("session-closed", do_all ? "get-all" : "get", "the owner closed the session on a well-formed %s request", do_all ? "get_all" : "get_attr"); break; }
                if (!os) { scan_for_key(m, (size_t)n, "raw"); if (do_all && m->type != ctl_proto_type_get_all_attr_cfm) cv("get-all-reply-type", q == 0 ? "first-request" : "later-request", "the reply to get_all_attr_req has type %d", m->type); continue; }
                if (do_all) check_get_all_reply(os, m, n, "raw", q == 0); else check_get_reply(os, nm, m, n, "raw");
            }
            close(fd);
        } else if (act < 60 && os) {
            /* libxcmctl */
            struct xjob j; memset(&j, 0, sizeof j);
            const char *dash = strrchr(names[which], '-'); j.ref = atoll(dash + 1); j.pid = getpid(); j.order = (int)vrnd_n(&r, 2);
            static const char *const pool[] = { "xcm.type", "xcm.local_addr", "tls.key", "tls.cert", "tls.peer.cert.subject.cn", "no.such.attr", "xcm.blocking" };
            snprintf(j.name, sizeof j.name, "%s", pool[vrnd_n(&r, 7)]);
            /* libxcmctl gives up after 300 ms of wall-clock time without a reply: on a loaded machine the owner's turn may simply come
             * later.  A time-out is retried with a new session; only three in a row, with the owner serviced throughout, count */
            struct xjob j0 = j; bool timed_out = false;
            for (int attempt = 0; attempt < 3; attempt++) {
                j = j0;
                pthread_t th; pthread_create(&th, NULL, xjob_thread, &j);
                double t0 = vnow(); while (!j.done && vnow() - t0 < 5) { owner_service(&ow); struct pollfd none; vs_real_poll(&none, 0, 1); }
                pthread_join(th, NULL);
                timed_out = j.rc1 != -2 && ((j.rc1 < 0 && j.err1 == EAGAIN) || (j.rc2 < 0 && j.err2 == EAGAIN));
                if (!timed_out) break;
                vobs("libxcmctl_timeouts_retried", 1);
            }
            vobs("libxcmctl_sessions", 1);
            if (timed_out) { cv("xcmc-times-out", "three-sessions-in-a-row", "three libxcmctl sessions in a row got no reply within its 300 ms although the owner was making event-loop turns all the time (get \"%s\": %d errno %d; get_all: %d errno %d)", j.name, j.rc1, j.err1, j.rc2, j.err2); free(m); continue; }
            if (j.rc1 == -2) { vobs("libxcmctl_open_failed", 1); }
            else {
                unsigned char ref[600]; enum xcm_attr_type rt; int rrc, rerr; { SCX("xcm_attr_get", 8); errno = 0; rrc = xcm_attr_get(os, j.name, &rt, ref, 512); rerr = errno; vs_leave(); }
                if (!strcmp(j.name, "tls.key")) { rrc = -1; rerr = EACCES; }
                if ((j.rc1 >= 0) != (rrc >= 0) || (j.rc1 >= 0 && (j.rc1 != rrc || j.t != rt || (!vol(j.name) && memcmp(j.val, ref, (size_t)rrc)))) || (j.rc1 < 0 && j.err1 != rerr))
                    cv("reply-differs", "libxcmctl", "xcmc_attr_get(\"%s\") -> %d errno %d; xcm_attr_get in-process -> %d errno %d", j.name, j.rc1, j.err1, rrc, rerr);
                if (j.rc2 < 0) cv("xcmc-get-all-fails", j.order == 1 ? "first-request" : "later-request", "xcmc_attr_get_all failed with errno %d (%s)%s", j.err2, strerror(j.err2), j.order == 1 ? " as the first request of the session" : "");
                else if (j.saw_key) cv("tls-key-disclosed", "libxcmctl", "xcmc_attr_get_all reported tls.key");
                else vobs("libxcmctl_get_all_ok", 1);
            }
        } else if (act < 85) {
            /* mis-speaking sessions; half of the time a well-behaved session sits in the other (lower) seat and has a get-all waiting when
             * the bad request arrives, so that both are dealt with in one and the same turn of the owner */
            int fgood = -1;
            if (vrnd_p(&r, 50)) { for (int t = 0; t < 50 && fgood < 0; t++) { fgood = vctl_connect_path(path); if (fgood < 0) owner_service(&ow); } for (int i = 0; i < 3; i++) owner_service(&ow); }
            fd = -1; for (int t = 0; t < 50 && fd < 0; t++) { fd = vctl_connect_path(path); if (fd < 0) owner_service(&ow); }
            if (fd < 0) { if (fgood >= 0) close(fgood); free(m); continue; }
            if (fgood >= 0) { for (int i = 0; i < 3; i++) owner_service(&ow); vctl_send_get_all(fgood); vobs("bad_request_next_to_a_waiting_get_all", 1); }
            struct ctl_proto_msg *q = calloc(1, sizeof *q);
            switch (vrnd_n(&r, 8)) {
            case 0: vctl_send_raw(fd, q, 1 + vrnd_n(&r, 100)); break;                                    /* too short */
            case 1: vctl_send_raw(fd, q, sizeof *q - 1); break;
            case 2: q->type = (enum ctl_proto_type)(5 + vrnd_n(&r, 1000)); vctl_send_raw(fd, q, sizeof *q); break;   /* unknown type */
            case 3: q->type = ctl_proto_type_get_attr_cfm; vctl_send_raw(fd, q, sizeof *q); break;          /* a response as request */
            case 4: q->type = ctl_proto_type_get_attr_req; memset(q->get_attr_req.attr_name, 'a', sizeof q->get_attr_req.attr_name); vctl_send_raw(fd, q, sizeof *q); break;   /* unterminated name */
            case 5: memset(q, 0x41, sizeof *q); q->type = ctl_proto_type_get_attr_req; vctl_send_raw(fd, q, sizeof *q); break;                                            /* no NUL anywhere */
            case 6: for (size_t i = 0; i < sizeof *q; i++) ((unsigned char *)q)[i] = (unsigned char)vrnd(&r); vctl_send_raw(fd, q, sizeof *q); break;                   /* random bytes */
            default: { unsigned char *big = malloc(sizeof *q + 100); memset(big, 0, sizeof *q + 100); vctl_send_raw(fd, big, sizeof *q + 100); free(big); break; }       /* too long */
            }
            free(q);
            vobs("malformed_requests", 1);
            long n = raw_wait_reply(fd, &ow, m, 60);
            if (n > 0) { scan_for_key(m, (size_t)n, "raw"); if (n == (long)sizeof *m && m->type == ctl_proto_type_get_attr_cfm && os) vobs("malformed_request_answered", 1); }
            if (vrnd_p(&r, 50)) { vctl_send_get(fd, "xcm.type"); raw_wait_reply(fd, &ow, m, 30); }
            close(fd);
            if (fgood >= 0) { long n2 = raw_wait_reply(fgood, &ow, m, 600); if (n2 == 0) cv("no-reply", "get-all-next-to-a-bad-session", "a well-formed get_all got no reply while another session misbehaved"); else if (n2 > 0 && os) check_get_all_reply(os, m, n2, "raw-next-to-bad-session", true); close(fgood); for (int i = 0; i < 4; i++) owner_service(&ow); }
        } else if (act < 92 && os) {
            /* session slots are reused: A and B are open, B has a request in flight, A leaves, C arrives - C must get the answer to its own request */
            int fa = -1, fb = -1, fc = -1;
            for (int t = 0; t < 50 && fa < 0; t++) { fa = vctl_connect_path(path); if (fa < 0) owner_service(&ow); }
            owner_service(&ow);
            for (int t = 0; t < 50 && fb < 0; t++) { fb = vctl_connect_path(path); if (fb < 0) owner_service(&ow); }
            owner_service(&ow); owner_service(&ow);
            if (fa >= 0 && fb >= 0) {
                vctl_send_get(fb, "xcm.transport");
                owner_turns(&ow, os, 1 + (int)vrnd_n(&r, 12));
                close(fa); fa = -1;
                owner_turns(&ow, os, (int)vrnd_n(&r, 12));
                for (int t = 0; t < 50 && fc < 0; t++) { fc = vctl_connect_path(path); if (fc < 0) owner_turns(&ow, os, 5); }
                if (fc >= 0) {
                    owner_turns(&ow, os, (int)vrnd_n(&r, 12));
                    vctl_send_get(fc, "xcm.type");
                    long n = raw_wait_reply(fc, &ow, m, 600);
                    if (n > 0) check_get_reply(os, "xcm.type", m, n, "raw-after-slot-reuse"); else if (n == 0) cv("no-reply", "after-slot-reuse", "a session opened after another one had left got no reply to its first request");
                    if (n > 0 && m->type == ctl_proto_type_get_attr_cfm && strcmp(m->get_attr_cfm.attr.str_value, "connection") && strcmp(m->get_attr_cfm.attr.str_value, "server")) cv("reply-of-another-session", "after-slot-reuse", "a new session asked for xcm.type and was told \"%.40s\"", m->get_attr_cfm.attr.str_value);
                    /* and nothing unsolicited follows */
                    for (int i = 0; i < 6; i++) owner_service(&ow);
                    long extra = vctl_recv(fc, m);
                    if (extra > 0) cv("unsolicited-reply", "after-slot-reuse", "a session that made one request received a second message (%ld bytes)", extra);
                    vobs("slot_reuse_sessions", 1);
                }
            }
            if (fa >= 0) close(fa); if (fb >= 0) close(fb); if (fc >= 0) close(fc);
            for (int i = 0; i < 10; i++) owner_service(&ow);
        } else if (act < 95 && os) {
            /* a client that pipelines: many requests written before the first reply is read.  The owner's replies (37 kB each) fill the
             * client's receive queue, its next reply is refused by the kernel and has to wait; nothing may be dropped or reordered */
            fd = -1; for (int t = 0; t < 50 && fd < 0; t++) { fd = vctl_connect_path(path); if (fd < 0) owner_service(&ow); }
            if (fd < 0) { free(m); continue; }
            static const char *const pool[] = { "xcm.type", "xcm.transport", "xcm.blocking", "no.such.attr", "xcm.service", "xcm.max_msg_size", "xcm.local_addr" };
            int want = 14 + (int)vrnd_n(&r, 14); int order[32]; int sent = 0, stalls = 0;
            while (sent < want && stalls < 40) {
                order[sent] = (int)vrnd_n(&r, 7);
                if (vctl_send_get(fd, pool[order[sent]]) > 0) { sent++; stalls = 0; } else stalls++;
                owner_turns(&ow, os, 1 + (int)vrnd_n(&r, 6));
            }
            for (int i = 0; i < 8; i++) owner_service(&ow);
            vobs("pipelined_sessions", 1); vobs("pipelined_requests", sent);
            int got = 0;
            while (got < sent && !vviol_count()) {
                long n = raw_wait_reply(fd, &ow, m, 600);
                if (n == 0) { cv("reply-missing", "pipelined", "%d requests were written before the first reply was read; only %d replies came back", sent, got); break; }
                if (n < 0) { cv("session-closed", "pipelined", "the owner closed a session that had %d well-formed requests outstanding (%d answered)", sent, got); break; }
                check_get_reply(os, pool[order[got]], m, n, "raw-pipelined");
                got++;
            }
            if (got == sent) { for (int i = 0; i < 6; i++) owner_service(&ow); if (vctl_recv(fd, m) > 0) cv("unsolicited-reply", "pipelined", "more replies than requests (%d)", sent); }
            close(fd);
            for (int i = 0; i < 6; i++) owner_service(&ow);
        } else if (act < 97 && os) {
            /* an owner that acts only when its descriptor says so (a real event loop): both seats taken, one session leaves, the other is silent,
             * a newcomer connects and asks - the owner must be woken up for it */
            int fa = -1, fb = -1, fc = -1; bool is_server = os == S.s; int cond = is_server ? XCM_SO_ACCEPTABLE : XCM_SO_RECEIVABLE;
            for (int t = 0; t < 50 && fa < 0; t++) { fa = vctl_connect_path(path); if (fa < 0) owner_service(&ow); }
            for (int t = 0; t < 50 && fb < 0; t++) { fb = vctl_connect_path(path); if (fb < 0) owner_service(&ow); }
            bool both = false;
            if (fa >= 0 && fb >= 0) { vctl_send_get(fa, "xcm.type"); vctl_send_get(fb, "xcm.type"); long n1 = raw_wait_reply(fa, &ow, m, 600), n2 = raw_wait_reply(fb, &ow, m, 600); both = n1 > 0 && n2 > 0; }
            if (both) {
                int xfd; { SCX("xcm_await", 8); xcm_await(os, cond); vs_leave(); } { SCX("xcm_fd", 8); xfd = xcm_fd(os); vs_leave(); }
                if (vrnd_p(&r, 50)) { close(fa); fa = -1; } else { close(fb); fb = -1; }
                /* event-driven turns until the owner's descriptor is quiet */
                int quiet = 0;
                for (int i = 0; i < 400 && quiet < 3; i++) { struct pollfd pf = { .fd = xfd, .events = POLLIN }; if (vs_real_poll(&pf, 1, 10) > 0) { owner_turns(&ow, os, 1); quiet = 0; } else quiet++; }
                for (int t = 0; t < 20 && fc < 0; t++) { fc = vctl_connect_path(path); if (fc < 0) { struct pollfd none; vs_real_poll(&none, 0, 2); } }
                if (fc >= 0 && quiet >= 3) {
                    vctl_send_get(fc, "xcm.type");
                    long n = 0; int wakeups = 0; double t0 = vnow();
                    while (n == 0 && vnow() - t0 < 3.0) {
                        struct pollfd pf = { .fd = xfd, .events = POLLIN };
                        if (vs_real_poll(&pf, 1, 50) > 0) { owner_turns(&ow, os, 1); wakeups++; }
                        n = vctl_recv(fc, m);
                    }
                    vobs("newcomer_on_idle_event_driven_owner", 1);
                    if (n > 0) check_get_reply(os, "xcm.type", m, n, "raw-newcomer-idle-owner");
                    else if (n == 0) cv("no-wakeup-for-newcomer", "one-seat-free", "two control sessions were attached, one left, the owner's descriptor went quiet; a new session connected and asked for xcm.type: in 3 s the owner's xcm fd became readable %d time(s) and no reply came", wakeups);
                }
            }
            if (fa >= 0) close(fa); if (fb >= 0) close(fb); if (fc >= 0) close(fc);
            for (int i = 0; i < 10; i++) owner_service(&ow);
        } else {
            /* many sessions at once (the limit is two), some leave before the reply */
            int sfd[5]; int ns = 3 + (int)vrnd_n(&r, 3);
            for (int i = 0; i < ns; i++) { sfd[i] = vctl_connect_path(path); if (sfd[i] >= 0) { if (vrnd_p(&r, 50)) vctl_send_get_all(sfd[i]); else vctl_send_get(sfd[i], "xcm.type"); } }
            for (int i = 0; i < 20; i++) owner_service(&ow);
            for (int i = 0; i < ns; i++) if (sfd[i] >= 0 && vrnd_p(&r, 50)) { close(sfd[i]); sfd[i] = -1; }     /* gone in mid-exchange */
            for (int i = 0; i < 50; i++) owner_service(&ow);
            for (int i = 0; i < ns; i++) if (sfd[i] >= 0) { long n = vctl_recv(sfd[i], m); if (n > 0) scan_for_key(m, (size_t)n, "raw"); close(sfd[i]); }
            for (int i = 0; i < 20; i++) owner_service(&ow);
            vobs("session_storms", 1);
        }
        free(m);
        /* the data path is unharmed */
        if ((rd % 4) == 3) {
            unsigned char msg[100], rb[200]; memset(msg, rd, sizeof msg); size_t sent = 0, got = 0;
            for (int i = 0; i < 3000 && got < sizeof msg; i++) {
                if (sent < sizeof msg) { int rc = vx_send(&A, msg + sent, sizeof msg - sent); if (rc >= 0) sent += A.bytestream ? (size_t)rc : sizeof msg; else if (errno != EAGAIN) break; }
                vx_finish(&A); int rc = vx_receive(&B, rb + got, sizeof rb - got); if (rc > 0) got += (size_t)rc; else if (rc == 0 || errno != EAGAIN) break;
            }
            if (got != sizeof msg || memcmp(msg, rb, sizeof msg)) cv("data-path-harmed", vtp_name[c.tp], "a message sent on the owner's connection after control traffic was not delivered intact (%zu of %zu bytes)", got, sizeof msg);
            else vobs("data_path_checks", 1);
        }
    }
    { char sg[100]; snprintf(sg, sizeof sg, "%s|%d|%d", vtp_name[c.tp], c.flavour, c.flavour == 2 ? c.nsan : 0); vsig_str(sg); }
out:
    if (A.s) vx_close(&A); if (B.s) vx_close(&B); if (S.s) vx_close(&S);
    {   /* the control files are gone */
        DIR *d = opendir(ctl_dir); int left = 0; char first[128] = "";
        if (d) { struct dirent *de; while ((de = readdir(d))) if (de->d_name[0] != '.') { if (!left) snprintf(first, sizeof first, "%s", de->d_name); left++; } closedir(d); }
        if (left) cv("control-file-left", vtp_name[c.tp], "%d control file(s) still in XCM_CTL after every socket was closed (%s)", left, first); else vobs("control_dirs_empty_after_close", 1);
    }
    { char cmd[900]; snprintf(cmd, sizeof cmd, "rm -rf '%s' '%s'", ctl_dir, longdir[0] ? longdir : ctl_dir); if (system(cmd)) {} }
    if (idx < 2) vsample(ctx);
    vcase_done(true);
}

int main(int argc, char **argv)
{
    vparse_args(argc, argv);
    signal(SIGPIPE, SIG_IGN);
    setenv("VERIF_KEEP_CTL", "1", 1);
    veng_global_init();
    { char p[700]; snprintf(p, sizeof p, "%s/no-ctl", va.dir); setenv("XCM_CTL", p, 1); }
    for (int k = 0; k < 4; k++) {
        static char sans[80][32]; static const char *sp[80];
        for (int i = 0; i < 80; i++) { snprintf(sans[i], sizeof sans[i], "san-%02d.verif.test", i); sp[i] = sans[i]; }
        struct vpki_opts o; vpki_opts_default(&o); o.eku = VPKI_EKU_BOTH; o.san_dns = sp; o.n_san_dns = san_counts[k];
        san_leaf[k] = vpki_make("verif-peer-sans", veng_ca, &o);
    }
    for (long i = 0; i < va.cases; i++) {
        if (va.only >= 0 && i != va.only) continue;
        if (va.only >= 0) { one_case(i, NULL); continue; }
        vfork_case(i, one_case, NULL, 90, "C14");
        if (vstop_early()) break;
    }
    vsummary(true);
    return 0;
}
