/* c11.c - attribute values take effect and are inherited as documented (C11).
 *
 * Families of cases:
 *   TCPOPT    tcp.keepalive*, tcp.user_timeout set in the creation map, while
 *             the name is being resolved (stub resolver holds), while the TCP
 *             handshake is pending (first candidate does not answer, the next
 *             one accepts), when established, after the peer closed, in the
 *             accept map, on the accepted socket: afterwards xcm_attr_get
 *             reports the values and getsockopt() on the connection's kernel
 *             descriptor (known from the shim's ledger) shows them in force;
 *   INHERIT   accepted sockets inherit blocking mode, service and the TLS
 *             policy attributes of the server socket unless the accept map
 *             overrides them;
 *   BLOCKING  xcm.blocking and xcm_set_blocking/xcm_is_blocking are one switch;
 *             xcm_fd/xcm_await/xcm_finish refuse with EINVAL in blocking mode;
 *   SERVICE   xcm.service admits exactly the matching transports;
 *   CREATEONLY attributes documented as writable only at creation are refused
 *             with EACCES afterwards and a full snapshot is unchanged;
 *   LOCALADDR xcm.local_addr is the source address (getsockname).
 */
#include "vstate.h"

#include <arpa/inet.h>
#include <netinet/in.h>
#include <netinet/tcp.h>
#include <poll.h>
#include <signal.h>
#include <sys/socket.h>

static long cur_case;
static char ctx[900];

enum fam { F_TCPOPT, F_INHERIT, F_BLOCKING, F_SERVICE, F_CREATEONLY, F_LOCALADDR };
static const char *const fam_name[] = { "tcpopt", "inherit", "blocking", "service", "create-only", "local-addr" };
enum moment { M_CREATE, M_RESOLVING, M_CONNECTING, M_ESTABLISHED, M_PEER_CLOSED, M_ACCEPT_MAP, M_ACCEPTED, M_N };
static const char *const moment_name[] = { "creation-map", "while-resolving", "while-connecting", "established", "after-peer-close", "accept-map", "on-accepted-socket" };

struct topt { bool set[5]; int64_t v[5]; };     /* keepalive, keepalive_time, keepalive_interval, keepalive_count, user_timeout */
static const char *const topt_name[5] = { "tcp.keepalive", "tcp.keepalive_time", "tcp.keepalive_interval", "tcp.keepalive_count", "tcp.user_timeout" };
static const int64_t topt_default[5] = { 1, 1, 1, 3, 3 };

static const char *proto(enum vtp tp) { return tp == TP_UX ? "ux" : tp == TP_UXF ? "uxf" : tp == TP_TCP ? "tcp" : tp == TP_TLS ? "tls" : tp == TP_BTCP ? "btcp" : tp == TP_BTLS ? "btls" : "utls"; }

static void cv(const char *rule, const char *what, const char *fmt, ...)
{
    char msg[900]; va_list ap; va_start(ap, fmt); vsnprintf(msg, sizeof msg, fmt, ap); va_end(ap);
    char key[200]; snprintf(key, sizeof key, "effect:%s:%s", rule, what);
    vviol(cur_case, "effect", key, veng_detail(ctx), "%s; %s", msg, ctx);
}

#define SCX(nm, epn) struct vs_scope _sc = { .active = true, .nonblocking = true, .api = nm, .ep = epn, .plan = NULL }; vs_enter(&_sc)

static void gen_topt(struct topt *t, vrng *r)
{
    memset(t, 0, sizeof *t);
    int which = (int)vrnd_n(r, 8);
    for (int i = 0; i < 5; i++) t->set[i] = which < 5 ? i == which : vrnd_p(r, 50);
    t->v[0] = vrnd_p(r, 50);
    static const int64_t tv[] = { 1, 2, 7, 60, 7200, 32767 };
    t->v[1] = tv[vrnd_n(r, 6)]; t->v[2] = tv[vrnd_n(r, 6)];
    static const int64_t cv_[] = { 1, 2, 9, 127 }; t->v[3] = cv_[vrnd_n(r, 4)];
    static const int64_t uv[] = { 1, 2, 7, 30, 3600, 2147483 }; t->v[4] = uv[vrnd_n(r, 6)];
    if (t->set[1] && t->v[1] == topt_default[1]) t->v[1] = 5;     /* make the set observable */
    if (t->set[2] && t->v[2] == topt_default[2]) t->v[2] = 6;
    if (t->set[3] && t->v[3] == topt_default[3]) t->v[3] = 4;
    if (t->set[4] && t->v[4] == topt_default[4]) t->v[4] = 9;
    if (t->set[0]) t->v[0] = 0;
}
static void topt_to_map(const struct topt *t, struct xcm_attr_map *m)
{ for (int i = 0; i < 5; i++) if (t->set[i]) { if (i == 0) xcm_attr_map_add_bool(m, topt_name[i], t->v[i] != 0); else xcm_attr_map_add_int64(m, topt_name[i], t->v[i]); } }
static int topt_apply(struct xcm_socket *s, int ep, const struct topt *t, const char *when)
{
    for (int i = 0; i < 5; i++) if (t->set[i]) {
        SCX("xcm_attr_set", ep); int rc = i == 0 ? xcm_attr_set_bool(s, topt_name[i], t->v[i] != 0) : xcm_attr_set_int64(s, topt_name[i], t->v[i]); int se = errno; vs_leave();
        if (rc < 0) { cv("set-refused", topt_name[i], "xcm_attr_set(\"%s\", %" PRId64 ") %s failed with errno %d (%s)", topt_name[i], t->v[i], when, se, strerror(se)); return -1; }
        vobs("tcp_option_sets", 1);
    }
    return 0;
}
static void topt_merge(struct topt *into, const struct topt *t) { for (int i = 0; i < 5; i++) if (t->set[i]) { into->set[i] = true; into->v[i] = t->v[i]; } }

/* compare what the API reports and what the kernel has in force with the expectation */
static void topt_verify(struct xcm_socket *s, int ep, const struct topt *expect, const char *when, const char *tp)
{
    int fd = vs_ledger_data_fd(ep);
    for (int i = 0; i < 5; i++) {
        int64_t want = expect->set[i] ? expect->v[i] : topt_default[i];
        int64_t got = -1; bool gb = false; int rc;
        { SCX("xcm_attr_get", ep); rc = i == 0 ? xcm_attr_get_bool(s, topt_name[i], &gb) : xcm_attr_get_int64(s, topt_name[i], &got); vs_leave(); }
        if (i == 0) got = gb;
        if (rc < 0) { cv("get-fails", topt_name[i], "%s: xcm_attr_get(\"%s\") fails %s", tp, topt_name[i], when); return; }
        if (got != want) { cv("get-differs", topt_name[i], "%s: \"%s\" reads %" PRId64 " %s, the value %s was %" PRId64, tp, topt_name[i], got, when, expect->set[i] ? "set" : "left at its default", want); return; }
        if (fd >= 0) {
            int kv = -1; socklen_t kl = sizeof kv; int krc;
            switch (i) {
            case 0: krc = getsockopt(fd, SOL_SOCKET, SO_KEEPALIVE, &kv, &kl); break;
            case 1: krc = getsockopt(fd, IPPROTO_TCP, TCP_KEEPIDLE, &kv, &kl); break;
            case 2: krc = getsockopt(fd, IPPROTO_TCP, TCP_KEEPINTVL, &kv, &kl); break;
            case 3: krc = getsockopt(fd, IPPROTO_TCP, TCP_KEEPCNT, &kv, &kl); break;
            default: krc = getsockopt(fd, IPPROTO_TCP, TCP_USER_TIMEOUT, &kv, &kl); want *= 1000; break;
            }
            vobs("kernel_option_reads", 1);
            if (krc < 0) continue;
            if ((int64_t)kv != want) { cv("not-in-force", topt_name[i], "%s: \"%s\" = %" PRId64 " was %s %s, xcm_attr_get agrees, but the kernel socket (fd %d) has %d%s", tp, topt_name[i], expect->set[i] ? expect->v[i] : topt_default[i], expect->set[i] ? "set" : "left at its default", when, fd, kv, i == 4 ? " ms" : ""); return; }
        }
    }
    vobs("tcp_option_verifications", 1);
}

/* A value XCM's own range check lets through but the kernel refuses (TCP_KEEPIDLE / TCP_KEEPINTVL above 32767, TCP_KEEPCNT above 127), set on a
 * socket that has its kernel descriptor: whatever the call returns, "accepted" must mean "reported and in force".  A refusal leaves the expectation
 * alone; the same set tried again is judged the same way (an acceptance is merged into the expectation and the kernel comparison decides). */
static void topt_try_kernel_refused(struct xcm_socket *s, int ep, struct topt *expect, vrng *r)
{
    int i = 1 + (int)vrnd_n(r, 3);
    int64_t v = i == 3 ? 128 + (int64_t)vrnd_n(r, 1000) : 32768 + (int64_t)vrnd_n(r, 100000);
    for (int k = 0; k < 2; k++) {
        SCX("xcm_attr_set", ep); int rc = xcm_attr_set_int64(s, topt_name[i], v); vs_leave();
        if (rc == 0) { expect->set[i] = true; expect->v[i] = v; vobs("kernel_refused_values_accepted_by_xcm", 1); }
        else vobs("kernel_refused_values_refused", 1);
    }
}

/* ---- TCPOPT ---- */
static void run_tcpopt(long idx, vrng *r, enum vtp tp, enum moment mo)
{
    (void)idx;
    const char *pr = proto(tp);
    struct topt at_create, later, expect; gen_topt(&at_create, r); gen_topt(&later, r); memset(&expect, 0, sizeof expect);
    bool use_create = mo == M_CREATE || vrnd_p(r, 30);
    if (!use_create) memset(&at_create, 0, sizeof at_create);
    struct xcm_socket *sv = NULL, *cl = NULL, *ac = NULL;
    struct vnet_noanswer na; bool have_na = false;
    const char *ips[2] = { "127.0.0.81", "127.0.0.82" }; int port = vnet_pick_port(ips, 2);
    struct xcm_attr_map *sm = xcm_attr_map_create(), *cm = xcm_attr_map_create(), *am = xcm_attr_map_create();
    xcm_attr_map_add_bool(sm, "xcm.blocking", false); xcm_attr_map_add_bool(cm, "xcm.blocking", false);
    if (vtp_is_bytestream(tp)) { xcm_attr_map_add_str(sm, "xcm.service", "bytestream"); xcm_attr_map_add_str(cm, "xcm.service", "bytestream"); }
    char saddr[96], caddr[96]; snprintf(saddr, sizeof saddr, "%s:127.0.0.82:%d", pr, port);
    { SCX("xcm_server_a", 2); sv = xcm_server_a(saddr, sm); vs_leave(); }
    if (!sv) { vobs("setup_failed", 1); goto out; }
    const char *cpr = tp == TP_UTLS_TLS ? "tls" : pr;
    snprintf(caddr, sizeof caddr, "%s:127.0.0.82:%d", cpr, port);
    vdns_reset();
    if (mo == M_RESOLVING || mo == M_CONNECTING) {
        struct vdns_plan dp; memset(&dp, 0, sizeof dp); snprintf(dp.name, sizeof dp.name, "c11.verif.test");
        if (mo == M_RESOLVING) { dp.deliver = VDNS_NEVER; vdns_addr4(&dp.addrs[dp.n++], "127.0.0.82"); }
        else { dp.deliver = VDNS_SYNC; vdns_addr4(&dp.addrs[dp.n++], "127.0.0.81"); vdns_addr4(&dp.addrs[dp.n++], "127.0.0.82"); have_na = vnet_noanswer_open(&na, "127.0.0.81", port) == 0;
               xcm_attr_map_add_str(cm, "dns.algorithm", "sequential"); xcm_attr_map_add_double(cm, "tcp.connect_timeout", 0.15); }
        vdns_enable(true); vdns_set(&dp);
        snprintf(caddr, sizeof caddr, "%s:c11.verif.test:%d", cpr, port);
    }
    topt_to_map(&at_create, cm); topt_merge(&expect, &at_create);
    if (mo == M_ACCEPT_MAP) topt_to_map(&later, am);
    { SCX("xcm_connect_a", 0); cl = xcm_connect_a(caddr, cm); vs_leave(); }
    if (!cl) { vobs("setup_failed", 1); goto out; }
    if (mo == M_RESOLVING || mo == M_CONNECTING) {
        /* the socket is held in the phase: make sure, then set */
        { SCX("xcm_finish", 0); int f = xcm_finish(cl); int fe = errno; vs_leave(); if (!(f < 0 && fe == EAGAIN)) { vobs("phase_not_held", 1); goto out; } }
        if (topt_apply(cl, 0, &later, moment_name[mo]) < 0) goto out;
        topt_merge(&expect, &later);
        vobs(mo == M_RESOLVING ? "sets_while_resolving" : "sets_while_connecting", 1);
        if (mo == M_RESOLVING) vdns_release_all();
    }
    bool ready = false;
    for (int i = 0; i < 4000; i++) {
        if (!ac) { SCX("xcm_accept_a", 1); ac = xcm_accept_a(sv, am); int ae = errno; vs_leave(); if (!ac && ae != EAGAIN) { cv("accept-fails", "tcp", "xcm_accept_a with TCP attributes in the map failed: %s", strerror(ae)); goto out; } }
        int f1, e1; { SCX("xcm_finish", 0); f1 = xcm_finish(cl); e1 = errno; vs_leave(); }
        int f2 = -1; if (ac) { SCX("xcm_finish", 1); f2 = xcm_finish(ac); vs_leave(); }
        if (f1 == 0 && f2 == 0) { ready = true; break; }
        if (f1 < 0 && e1 != EAGAIN) break;
        struct pollfd none; vs_real_poll(&none, 0, 1);
    }
    if (!ready) { vobs("not_established", 1); goto out; }
    if (mo == M_RESOLVING || mo == M_CONNECTING) vobs("parked_sets_whose_connection_established", 1);
    if (mo == M_ESTABLISHED) { if (topt_apply(cl, 0, &later, moment_name[mo]) < 0) goto out; topt_merge(&expect, &later); if (vrnd_p(r, 40)) topt_try_kernel_refused(cl, 0, &expect, r); }
    if (mo == M_PEER_CLOSED) {
        { SCX("xcm_close", 1); xcm_close(ac); vs_leave(); ac = NULL; }
        unsigned char b[64]; for (int i = 0; i < 500; i++) { SCX("xcm_receive", 0); int rc = xcm_receive(cl, b, sizeof b); int re = errno; vs_leave(); if (rc == 0 || (rc < 0 && re != EAGAIN)) break; struct pollfd none; vs_real_poll(&none, 0, 1); }
        /* a set may be refused now; if it is accepted it must hold */
        struct topt acc; memset(&acc, 0, sizeof acc);
        for (int i = 0; i < 5; i++) if (later.set[i]) { SCX("xcm_attr_set", 0); int rc = i == 0 ? xcm_attr_set_bool(cl, topt_name[i], later.v[i] != 0) : xcm_attr_set_int64(cl, topt_name[i], later.v[i]); vs_leave(); if (rc == 0) { acc.set[i] = true; acc.v[i] = later.v[i]; } }
        topt_merge(&expect, &acc);
    }
    if (mo == M_ACCEPT_MAP || mo == M_ACCEPTED) {
        struct topt ex2; memset(&ex2, 0, sizeof ex2);
        if (mo == M_ACCEPTED) { if (topt_apply(ac, 1, &later, moment_name[mo]) < 0) goto out; }
        topt_merge(&ex2, &later);
        if (mo == M_ACCEPTED && vrnd_p(r, 40)) topt_try_kernel_refused(ac, 1, &ex2, r);
        topt_verify(ac, 1, &ex2, moment_name[mo], pr);
    }
    topt_verify(cl, 0, &expect, moment_name[mo], pr);
    { char sg[100]; snprintf(sg, sizeof sg, "tcpopt|%s|%s|%d%d%d%d%d", pr, moment_name[mo], expect.set[0], expect.set[1], expect.set[2], expect.set[3], expect.set[4]); vsig_str(sg); }
out:
    if (cl) { SCX("xcm_close", 0); xcm_close(cl); vs_leave(); }
    if (ac) { SCX("xcm_close", 1); xcm_close(ac); vs_leave(); }
    if (sv) { SCX("xcm_close", 2); xcm_close(sv); vs_leave(); }
    if (have_na) vnet_noanswer_close(&na);
    vdns_enable(false);
    xcm_attr_map_destroy(sm); xcm_attr_map_destroy(cm); xcm_attr_map_destroy(am);
}

/* ---- INHERIT ---- */
struct pol { bool auth, check_time, check_crl, verify_name, client; char names[64]; };
static bool get_bool(struct xcm_socket *s, const char *n, bool *v) { SCX("xcm_attr_get", 9); int rc = xcm_attr_get_bool(s, n, v); vs_leave(); return rc >= 0; }
static bool get_str(struct xcm_socket *s, const char *n, char *v, size_t cap) { SCX("xcm_attr_get", 9); int rc = xcm_attr_get_str(s, n, v, cap); vs_leave(); return rc >= 0; }

static void run_inherit(long idx, vrng *r, enum vtp tp)
{
    (void)idx;
    struct vep A, B, S; veng_ep_init(&A, 0, tp, 1); veng_ep_init(&B, 1, tp, 2); veng_ep_init(&S, 2, tp, 3);
    struct xcm_attr_map *sm = xcm_attr_map_create(), *am = xcm_attr_map_create(), *cm = xcm_attr_map_create();
    bool tls = vtp_is_tls(tp) || tp == TP_UTLS_UX;
    struct pol sp = { .auth = true, .check_time = true, .check_crl = false, .verify_name = false, .client = false }, ap;
    bool override[6] = { 0 };
    if (tls) {
        sp.auth = vrnd_p(r, 60); sp.check_time = vrnd_p(r, 50); sp.verify_name = sp.auth && vrnd_p(r, 40);
        if (sp.verify_name) snprintf(sp.names, sizeof sp.names, "verif-peer:other.verif.test");
        xcm_attr_map_add_bool(sm, "tls.auth", sp.auth); xcm_attr_map_add_bool(sm, "tls.check_time", sp.check_time);
        if (sp.verify_name) { xcm_attr_map_add_bool(sm, "tls.verify_peer_name", true); xcm_attr_map_add_str(sm, "tls.peer_names", sp.names); }
        ap = sp;
        if (vrnd_p(r, 40)) { override[0] = true; ap.auth = !sp.auth; if (!ap.auth) { ap.verify_name = false; } xcm_attr_map_add_bool(am, "tls.auth", ap.auth); if (!ap.auth && sp.verify_name) { xcm_attr_map_add_bool(am, "tls.verify_peer_name", false); override[3] = true; } }
        if (vrnd_p(r, 40)) { override[1] = true; ap.check_time = !sp.check_time; xcm_attr_map_add_bool(am, "tls.check_time", ap.check_time); }
    } else ap = sp;
    struct vpair_opts po = { .server_attrs = sm, .accept_attrs = am, .conn_attrs = cm };
    char why[200] = "";
    if (veng_pair(tp, &A, &B, &S, &po, why, sizeof why) < 0) { vobs("setup_failed", 1); VLOG("setup failed %s", why); goto out; }
    /* service and blocking mode are inherited */
    char ssv[32] = "", asv[32] = "";
    if (get_str(S.s, "xcm.service", ssv, sizeof ssv) && get_str(B.s, "xcm.service", asv, sizeof asv) && strcmp(ssv, asv)) cv("inherit", "xcm.service", "%s: server has xcm.service \"%s\", the accepted socket \"%s\"", proto(tp), ssv, asv);
    bool sb, ab;
    if (get_bool(S.s, "xcm.blocking", &sb) && get_bool(B.s, "xcm.blocking", &ab) && sb != ab) cv("inherit", "xcm.blocking", "%s: server blocking=%d, accepted blocking=%d", proto(tp), sb, ab);
    if (tls && tp != TP_UTLS_UX) {
        bool v;
        if (get_bool(B.s, "tls.auth", &v) && v != ap.auth) cv(override[0] ? "accept-override" : "inherit", "tls.auth", "%s: server tls.auth=%d, accept map %s, accepted socket reports %d", proto(tp), sp.auth, override[0] ? "overrides" : "silent", v);
        if (get_bool(B.s, "tls.check_time", &v) && v != ap.check_time) cv(override[1] ? "accept-override" : "inherit", "tls.check_time", "%s: server tls.check_time=%d, accept map %s, accepted socket reports %d", proto(tp), sp.check_time, override[1] ? "overrides" : "silent", v);
        if (get_bool(B.s, "tls.verify_peer_name", &v) && v != ap.verify_name) cv(override[3] ? "accept-override" : "inherit", "tls.verify_peer_name", "%s: server tls.verify_peer_name=%d, accepted socket reports %d", proto(tp), sp.verify_name, v);
        if (get_bool(B.s, "tls.client", &v) && v != false) cv("inherit", "tls.client", "%s: accepted socket reports tls.client=%d", proto(tp), v);
        vobs("tls_policy_inheritance_checks", 1);
    }
    vobs("inheritance_checks", 1);
    { char sg[100]; snprintf(sg, sizeof sg, "inherit|%s|%d%d%d|%d%d", proto(tp), sp.auth, sp.check_time, sp.verify_name, override[0], override[1]); vsig_str(sg); }
out:
    if (A.s) vx_close(&A); if (B.s) vx_close(&B); if (S.s) vx_close(&S);
    xcm_attr_map_destroy(sm); xcm_attr_map_destroy(am); xcm_attr_map_destroy(cm);
}

/* ---- BLOCKING ---- */
static void run_blocking(long idx, vrng *r, enum vtp tp)
{
    (void)idx;
    struct vep A, B, S; veng_ep_init(&A, 0, tp, 1); veng_ep_init(&B, 1, tp, 2); veng_ep_init(&S, 2, tp, 3);
    char why[200] = ""; struct vpair_opts po = { 0 };
    if (veng_pair(tp, &A, &B, &S, &po, why, sizeof why) < 0) { vobs("setup_failed", 1); goto out; }
    struct xcm_socket *socks[3] = { A.s, B.s, S.s };
    for (int k = 0; k < 3; k++) {
        struct xcm_socket *s = socks[k];
        for (int round = 0; round < 4; round++) {
            bool want = vrnd_p(r, 50); bool via_attr = vrnd_p(r, 50);
            int rc; { struct vs_scope sc = { .active = true, .nonblocking = false, .api = "xcm_set_blocking", .ep = k, .plan = NULL }; vs_enter(&sc); rc = via_attr ? xcm_attr_set_bool(s, "xcm.blocking", want) : xcm_set_blocking(s, want); vs_leave(); }
            if (rc < 0) { cv("blocking-switch", "set", "%s: switching blocking mode to %d via %s failed: %s", proto(tp), want, via_attr ? "the attribute" : "xcm_set_blocking", strerror(errno)); goto out; }
            bool a = !want, b;
            b = xcm_is_blocking(s); get_bool(s, "xcm.blocking", &a);
            if (a != want || b != want) { cv("blocking-switch", "one-switch", "%s: blocking mode set to %d via %s; xcm.blocking reads %d, xcm_is_blocking() %d", proto(tp), want, via_attr ? "the attribute" : "xcm_set_blocking", a, b); goto out; }
            int f = xcm_fd(s); int fe = errno; int aw = xcm_await(s, 0); int awe = errno;
            if (want && !(f == -1 && fe == EINVAL)) { cv("blocking-switch", "xcm_fd", "%s: xcm_fd on a blocking socket returned %d errno %d, expected -1/EINVAL", proto(tp), f, fe); goto out; }
            if (want && !(aw == -1 && awe == EINVAL)) { cv("blocking-switch", "xcm_await", "%s: xcm_await on a blocking socket returned %d errno %d, expected -1/EINVAL", proto(tp), aw, awe); goto out; }
            if (!want && (f < 0 || aw < 0)) { cv("blocking-switch", "non-blocking", "%s: non-blocking socket: xcm_fd %d, xcm_await %d", proto(tp), f, aw); goto out; }
            vobs("blocking_switch_checks", 1);
        }
        xcm_set_blocking(s, false);
    }
    { char sg[64]; snprintf(sg, sizeof sg, "blocking|%s", proto(tp)); vsig_str(sg); }
out:
    if (A.s) vx_close(&A); if (B.s) vx_close(&B); if (S.s) vx_close(&S);
}

/* ---- SERVICE ---- */
static void run_service(long idx, vrng *r, enum vtp tp)
{
    (void)idx; (void)r;
    static const char *const svc[] = { "messaging", "bytestream", "any", NULL };
    char uxf[700]; snprintf(uxf, sizeof uxf, "%s/uxf/c11-%d", va.dir, (int)getpid());
    for (int k = 0; k < 4; k++) {
        struct xcm_attr_map *m = xcm_attr_map_create(); xcm_attr_map_add_bool(m, "xcm.blocking", false);
        if (svc[k]) xcm_attr_map_add_str(m, "xcm.service", svc[k]);
        char addr[800];
        if (tp == TP_UX) snprintf(addr, sizeof addr, "ux:c11-%d-%d", (int)getpid(), k); else if (tp == TP_UXF) snprintf(addr, sizeof addr, "uxf:%s-%d", uxf, k); else snprintf(addr, sizeof addr, "%s:127.0.0.1:0", proto(tp));
        struct xcm_socket *s; int se; { SCX("xcm_server_a", 2); s = xcm_server_a(addr, m); se = errno; vs_leave(); }
        bool bytestream = vtp_is_bytestream(tp);
        bool want = !svc[k] ? !bytestream : !strcmp(svc[k], "any") ? true : !strcmp(svc[k], "bytestream") ? bytestream : !bytestream;
        if (want && !s) cv("service", "refused", "%s: xcm_server_a with xcm.service=%s failed (%s) although the transport provides that service", proto(tp), svc[k] ? svc[k] : "(default)", strerror(se));
        if (!want && s) cv("service", "admitted", "%s: xcm_server_a with xcm.service=%s succeeded although the transport is a %s transport", proto(tp), svc[k] ? svc[k] : "(default)", bytestream ? "byte-stream" : "messaging");
        if (s) {
            char v[32] = ""; get_str(s, "xcm.service", v, sizeof v);
            if (strcmp(v, bytestream ? "bytestream" : "messaging")) cv("service", "reported", "%s: xcm.service reads \"%s\"", proto(tp), v);
            /* the same restriction on the connecting side */
            const char *la = xcm_local_addr(s);
            for (int j = 0; j < 4 && la; j++) {
                struct xcm_attr_map *cm = xcm_attr_map_create(); xcm_attr_map_add_bool(cm, "xcm.blocking", false); if (svc[j]) xcm_attr_map_add_str(cm, "xcm.service", svc[j]);
                struct xcm_socket *c; { SCX("xcm_connect_a", 0); c = xcm_connect_a(la, cm); vs_leave(); }
                bool cw = !svc[j] ? !bytestream : !strcmp(svc[j], "any") ? true : !strcmp(svc[j], "bytestream") ? bytestream : !bytestream;
                if (cw && !c) cv("service", "refused", "%s: xcm_connect_a with xcm.service=%s failed although the transport provides that service", proto(tp), svc[j] ? svc[j] : "(default)");
                if (!cw && c) cv("service", "admitted", "%s: xcm_connect_a with xcm.service=%s succeeded on a %s transport", proto(tp), svc[j] ? svc[j] : "(default)", bytestream ? "byte-stream" : "messaging");
                if (c) { SCX("xcm_close", 0); xcm_close(c); vs_leave(); }
                xcm_attr_map_destroy(cm); vobs("service_checks", 1);
            }
            { SCX("xcm_close", 2); xcm_close(s); vs_leave(); }
        }
        xcm_attr_map_destroy(m); vobs("service_checks", 1);
    }
    { char sg[64]; snprintf(sg, sizeof sg, "service|%s", proto(tp)); vsig_str(sg); }
}

/* ---- CREATEONLY ---- */
struct snapent { char name[200]; enum xcm_attr_type t; size_t len; unsigned char v[600]; };
struct snap2 { struct snapent e[96]; int n; };
static void snap_cb(const char *name, enum xcm_attr_type type, const void *value, size_t len, void *data)
{ struct snap2 *s = data; if (s->n >= 96) return; struct snapent *e = &s->e[s->n++]; snprintf(e->name, sizeof e->name, "%s", name); e->t = type; e->len = len > sizeof e->v ? sizeof e->v : len; memcpy(e->v, value, e->len); }
static bool vol(const char *n) { return !strncmp(n, "tcp.rtt", 7) || !strncmp(n, "tcp.total_retrans", 17) || !strncmp(n, "tcp.segs", 8); }
static const char *snapdiff(struct snap2 *a, struct snap2 *b)
{
    static char d[300];
    if (a->n != b->n) { snprintf(d, sizeof d, "%d attributes before, %d after", a->n, b->n); return d; }
    for (int i = 0; i < a->n; i++) { if (vol(a->e[i].name)) continue; if (strcmp(a->e[i].name, b->e[i].name) || a->e[i].len != b->e[i].len || memcmp(a->e[i].v, b->e[i].v, a->e[i].len)) { snprintf(d, sizeof d, "%s changed", a->e[i].name); return d; } }
    return NULL;
}

static void run_createonly(long idx, vrng *r, enum vtp tp, enum vst st)
{
    (void)idx;
    struct vstate v; char why[200];
    if (vstate_make(&v, tp, st, r->s, NULL, why, sizeof why) < 0) { vobs("setup_failed", 1); vstate_free(&v); return; }
    struct vep *eps[3]; int ne = vstate_sockets(&v, eps, 3);
    static const struct { const char *name; enum xcm_attr_type t; const char *sv; int64_t iv; double dv; bool tcp_only, tls_only, conn_only; } co[] = {
        { "xcm.service", xcm_attr_type_str, "any", 0, 0, false, false, false },
        { "xcm.local_addr", xcm_attr_type_str, "tcp:127.0.0.99:0", 0, 0, true, false, true },
        { "dns.algorithm", xcm_attr_type_str, "sequential", 0, 0, true, false, true },
        { "dns.timeout", xcm_attr_type_double, NULL, 0, 2.5, true, false, true },
        { "tcp.connect_timeout", xcm_attr_type_double, NULL, 0, 1.5, true, false, true },
        { "ipv6.scope", xcm_attr_type_int64, NULL, 1, 0, true, false, false },
        { "tls.auth", xcm_attr_type_bool, NULL, 0, 0, false, true, false },
        { "tls.client", xcm_attr_type_bool, NULL, 1, 0, false, true, false },
        { "tls.check_time", xcm_attr_type_bool, NULL, 0, 0, false, true, false },
        { "tls.check_crl", xcm_attr_type_bool, NULL, 1, 0, false, true, false },
        { "tls.verify_peer_name", xcm_attr_type_bool, NULL, 1, 0, false, true, false },
        { "tls.peer_names", xcm_attr_type_str, "a.verif.test", 0, 0, false, true, false },
        { "tls.cert_file", xcm_attr_type_str, "/nonexistent/c.pem", 0, 0, false, true, false },
        { "tls.key_file", xcm_attr_type_str, "/nonexistent/k.pem", 0, 0, false, true, false },
        { "tls.tc_file", xcm_attr_type_str, "/nonexistent/t.pem", 0, 0, false, true, false },
        { "tls.crl_file", xcm_attr_type_str, "/nonexistent/r.pem", 0, 0, false, true, false },
        { "tls.cert", xcm_attr_type_bin, "-----BEGIN X", 0, 0, false, true, false },
        { "tls.key", xcm_attr_type_bin, "-----BEGIN X", 0, 0, false, true, false },
        { "tls.tc", xcm_attr_type_bin, "-----BEGIN X", 0, 0, false, true, false },
        { "tls.crl", xcm_attr_type_bin, "-----BEGIN X", 0, 0, false, true, false },
    };
    bool tcpb = vtp_is_tcp_based(tp) && tp != TP_UTLS_UX, tlsb = vtp_is_tls(tp);
    for (int k = 0; k < ne && !vviol_count(); k++) {
        struct vep *e = eps[k];
        for (unsigned j = 0; j < sizeof co / sizeof co[0]; j++) {
            if ((co[j].tcp_only && !tcpb) || (co[j].tls_only && !tlsb) || (co[j].conn_only && e->is_server)) continue;
            /* tcp.connect_timeout stays writable by design until resolution has finished */
            if (!strcmp(co[j].name, "tcp.connect_timeout") && st == ST_RESOLVING) continue;
            /* which address prefix a utls connection socket wants depends on its active half: not probed */
            if (!strcmp(co[j].name, "xcm.local_addr") && e == &v.ac && (tp == TP_UTLS_TLS || tp == TP_UTLS_UX)) continue;
            struct snap2 *b = calloc(1, sizeof *b), *a = calloc(1, sizeof *a);
            { SCX("xcm_attr_get_all", e->id); xcm_attr_get_all(e->s, snap_cb, b); vs_leave(); }
            int rc, se; bool bv = co[j].iv != 0;
            { SCX("xcm_attr_set", e->id);
              switch (co[j].t) {
              case xcm_attr_type_bool: rc = xcm_attr_set_bool(e->s, co[j].name, bv); break;
              case xcm_attr_type_int64: rc = xcm_attr_set_int64(e->s, co[j].name, co[j].iv); break;
              case xcm_attr_type_double: rc = xcm_attr_set_double(e->s, co[j].name, co[j].dv); break;
              case xcm_attr_type_str: { char val[96]; snprintf(val, sizeof val, "%s", co[j].sv);
                  if (!strcmp(co[j].name, "xcm.local_addr")) { char tr[32] = ""; xcm_attr_get_str(e->s, "xcm.transport", tr, sizeof tr); snprintf(val, sizeof val, "%s:127.0.0.99:0", tr); }    /* a value that would be admissible at creation of this very socket */
                  rc = xcm_attr_set_str(e->s, co[j].name, val); break; }
              default: rc = xcm_attr_set(e->s, co[j].name, xcm_attr_type_bin, co[j].sv, strlen(co[j].sv)); break;
              }
              se = errno; vs_leave(); }
            { SCX("xcm_attr_get_all", e->id); xcm_attr_get_all(e->s, snap_cb, a); vs_leave(); }
            vobs("create_only_sets", 1);
            const char *role = e->is_server ? "server" : e == &v.ac ? "accepted" : "client";
            if (rc == 0) cv("create-only-accepted", co[j].name, "%s %s socket (%s): xcm_attr_set(\"%s\") succeeded after creation; the attribute is documented as writable only at creation", proto(tp), role, vst_name[st], co[j].name);
            else if (se != EACCES && !(se == ENOENT)) cv("create-only-errno", co[j].name, "%s %s socket (%s): xcm_attr_set(\"%s\") after creation failed with errno %d (%s), expected EACCES", proto(tp), role, vst_name[st], co[j].name, se, strerror(se));
            else { const char *d = snapdiff(b, a); if (d) cv("create-only-side-effect", co[j].name, "%s %s socket: refused xcm_attr_set(\"%s\") changed something: %s", proto(tp), role, co[j].name, d); }
            free(a); free(b);
            if (vviol_count()) break;
        }
    }
    { char sg[100]; snprintf(sg, sizeof sg, "createonly|%s|%s", proto(tp), vst_name[st]); vsig_str(sg); }
    vstate_free(&v);
}

/* ---- LOCALADDR ---- */
static void run_localaddr(long idx, vrng *r, enum vtp tp)
{
    (void)idx;
    struct vep A, B, S; veng_ep_init(&A, 0, tp, 1); veng_ep_init(&B, 1, tp, 2); veng_ep_init(&S, 2, tp, 3);
    char lip[32]; snprintf(lip, sizeof lip, "127.0.8.%d", 1 + (int)vrnd_n(r, 250));
    const char *ips[1] = { lip }; int lport = vrnd_p(r, 50) ? vnet_pick_port(ips, 1) : 0;
    const char *cpr = tp == TP_UTLS_TLS ? "tls" : proto(tp);
    char la[96]; snprintf(la, sizeof la, "%s:%s:%d", cpr, lip, lport);
    struct xcm_attr_map *cm = xcm_attr_map_create(); xcm_attr_map_add_str(cm, "xcm.local_addr", la);
    struct vpair_opts po = { .conn_attrs = cm }; char why[200] = "";
    if (veng_pair(tp, &A, &B, &S, &po, why, sizeof why) < 0) { vobs("setup_failed", 1); VLOG("%s", why); goto out; }
    int fd = vs_ledger_data_fd(0);
    struct sockaddr_in sa; socklen_t sl = sizeof sa;
    if (fd >= 0 && getsockname(fd, (struct sockaddr *)&sa, &sl) == 0) {
        char got[32]; inet_ntop(AF_INET, &sa.sin_addr, got, sizeof got);
        if (strcmp(got, lip) || (lport && ntohs(sa.sin_port) != lport)) cv("local-addr", "source", "%s: xcm.local_addr %s, but the connection's kernel socket is bound to %s:%d", proto(tp), la, got, ntohs(sa.sin_port));
        else vobs("local_addr_checks", 1);
    }
    char rd[96] = ""; get_str(A.s, "xcm.local_addr", rd, sizeof rd);
    if (lport && strcmp(rd, la)) cv("local-addr", "reported", "%s: xcm.local_addr set to %s reads %s", proto(tp), la, rd);
    /* the peer sees that address */
    const char *ra = xcm_remote_addr(B.s);
    if (ra && !strstr(ra, lip)) cv("local-addr", "peer-view", "%s: the accepted socket's remote address is %s, the client's xcm.local_addr was %s", proto(tp), ra, la);
    { char sg[64]; snprintf(sg, sizeof sg, "localaddr|%s|%d", proto(tp), lport != 0); vsig_str(sg); }
out:
    if (A.s) vx_close(&A); if (B.s) vx_close(&B); if (S.s) vx_close(&S);
    xcm_attr_map_destroy(cm);
}

static void one_case(long idx, void *arg)
{
    (void)arg;
    cur_case = idx;
    uint64_t ss = vsub_seed(va.seed, (uint64_t)va.worker, (uint64_t)idx);
    vrng r = { ss };
    long gi = idx * va.nworkers + va.worker;
    static const enum vtp tcp_tps[] = { TP_TCP, TP_TLS, TP_UTLS_TLS, TP_BTCP, TP_BTLS };
    static const enum vtp all_tps[] = { TP_UX, TP_UXF, TP_TCP, TP_TLS, TP_UTLS_UX, TP_UTLS_TLS, TP_BTCP, TP_BTLS };
    unsigned k = (unsigned)(gi % 20);
    enum fam f = k < 10 ? F_TCPOPT : k < 13 ? F_INHERIT : k < 15 ? F_BLOCKING : k < 16 ? F_SERVICE : k < 19 ? F_CREATEONLY : F_LOCALADDR;
    enum vtp tp; enum moment mo = M_CREATE; enum vst st = ST_ESTABLISHED;
    switch (f) {
    case F_TCPOPT: tp = tcp_tps[(gi / 20) % 5]; mo = (enum moment)((gi / 100 + k) % M_N); break;
    case F_LOCALADDR: tp = tcp_tps[(gi / 20) % 5]; break;
    case F_CREATEONLY: { tp = all_tps[(gi / 20) % 8]; static const enum vst sts[] = { ST_ESTABLISHED, ST_PEER_CLOSED, ST_CONNECTING, ST_RESOLVING, ST_HANDSHAKING, ST_FAILED }; st = sts[(gi / 160 + k) % 6]; if (!vstate_applicable(tp, st)) st = ST_ESTABLISHED; break; }
    default: tp = all_tps[(gi / 20) % 8]; break;
    }
    if (f == F_SERVICE && (tp == TP_UTLS_TLS)) tp = TP_UTLS_UX;
    snprintf(ctx, sizeof ctx, "{\"case\":%ld,\"sub_seed\":\"%" PRIu64 "\",\"family\":\"%s\",\"transport\":\"%s\",\"moment\":\"%s\",\"state\":\"%s\"}", idx, ss, fam_name[f], proto(tp), f == F_TCPOPT ? moment_name[mo] : "-", f == F_CREATEONLY ? vst_name[st] : "-");
    VLOG("case %s", ctx);
    switch (f) {
    case F_TCPOPT: run_tcpopt(idx, &r, tp, mo); break;
    case F_INHERIT: run_inherit(idx, &r, tp); break;
    case F_BLOCKING: run_blocking(idx, &r, tp); break;
    case F_SERVICE: run_service(idx, &r, tp); break;
    case F_CREATEONLY: run_createonly(idx, &r, tp, st); break;
    default: run_localaddr(idx, &r, tp); break;
    }
    char cl[100]; snprintf(cl, sizeof cl, "%s/%s", fam_name[f], proto(tp)); vclass(cl);
    if (idx < 2) vsample(ctx);
    vcase_done(true);
}

int main(int argc, char **argv)
{
    vparse_args(argc, argv);
    signal(SIGPIPE, SIG_IGN);
    veng_global_init();
    for (long i = 0; i < va.cases; i++) {
        if (va.only >= 0 && i != va.only) continue;
        if (va.only >= 0) { one_case(i, NULL); continue; }
        vfork_case(i, one_case, NULL, 40, "C11");
        if (vstop_early()) break;
    }
    vsummary(true);
    return 0;
}
