/* c10.c - attribute reads and writes are memory-safe and type-checked (C10).
 *
 * For sockets of every transport held in every phase (vstate), every attribute
 * enumerated by xcm_attr_get_all (plus documented names that are absent) is
 * read through every getter with caller buffers that are heap blocks of
 * *exactly* `capacity` bytes (ASan red zone at byte `capacity`), for every
 * capacity 0..len+2, and written through xcm_attr_set with every value type,
 * right and wrong lengths, admissible and inadmissible values.  A reference
 * snapshot (taken through xcm_attr_get_all) is the oracle for values; a full
 * snapshot before/after is the oracle for "rejected without side effects".
 * Arbitrary and hostile name strings are thrown at every entry point.
 */
#include "vstate.h"

#include <limits.h>
#include <math.h>
#include <signal.h>

extern void log_console_conf(bool enabled);   /* libxcm internal (no version script) */

static long cur_case;
static char ctx[600];
static bool debug_on;
/* with the console log on, stderr (the per-case file, which also receives UBSan reports) is kept short */
static void trim_stderr(void) { if (debug_on && !va.verbose) { fflush(stderr); if (ftruncate(2, 0) == 0) lseek(2, 0, SEEK_SET); } }

struct arec { char name[320]; enum xcm_attr_type type; unsigned char *val; size_t len; bool vol; };
struct snap { struct arec *a; int n, cap; };

static bool is_volatile(const char *name)
{
    return !strcmp(name, "tcp.rtt") || !strcmp(name, "tcp.total_retrans") || !strcmp(name, "tcp.segs_in") || !strcmp(name, "tcp.segs_out");
}

static void collect_cb(const char *name, enum xcm_attr_type type, const void *value, size_t len, void *data)
{
    struct snap *s = data;
    if (s->n == s->cap) { s->cap = s->cap ? s->cap * 2 : 64; s->a = realloc(s->a, (size_t)s->cap * sizeof *s->a); }
    struct arec *r = &s->a[s->n++];
    snprintf(r->name, sizeof r->name, "%s", name);
    r->type = type; r->len = len; r->val = malloc(len ? len : 1); memcpy(r->val, value, len);
    r->vol = is_volatile(name);
}
static void snap_take(struct vep *e, struct snap *s)
{
    memset(s, 0, sizeof *s);
    struct vs_scope sc = { .active = true, .nonblocking = !e->blocking, .api = "xcm_attr_get_all", .ep = e->id, .plan = NULL };
    vs_enter(&sc);
    xcm_attr_get_all(e->s, collect_cb, s);
    vs_leave();
}
static void snap_free(struct snap *s) { for (int i = 0; i < s->n; i++) free(s->a[i].val); free(s->a); memset(s, 0, sizeof *s); }
static struct arec *snap_find(struct snap *s, const char *name) { for (int i = 0; i < s->n; i++) if (!strcmp(s->a[i].name, name)) return &s->a[i]; return NULL; }
/* first difference between two snapshots of stable attributes; NULL if none.  except: a name allowed to differ */
static const char *snap_diff(struct snap *a, struct snap *b, const char *except)
{
    static char d[400];
    for (int i = 0; i < a->n; i++) {
        struct arec *x = &a->a[i]; if (x->vol || (except && !strcmp(x->name, except))) continue;
        struct arec *y = snap_find(b, x->name);
        if (!y) { snprintf(d, sizeof d, "%s disappeared", x->name); return d; }
        if (y->type != x->type || y->len != x->len || memcmp(x->val, y->val, x->len)) { snprintf(d, sizeof d, "%s changed (len %zu -> %zu)", x->name, x->len, y->len); return d; }
    }
    for (int i = 0; i < b->n; i++) {
        struct arec *y = &b->a[i]; if (y->vol || (except && !strcmp(y->name, except))) continue;
        if (!snap_find(a, y->name)) { snprintf(d, sizeof d, "%s appeared", y->name); return d; }
    }
    return NULL;
}

/* generic form of a name for violation keys: list indices replaced */
static const char *gname(const char *name)
{
    static char g[200]; size_t o = 0;
    for (const char *p = name; *p && o + 4 < sizeof g; p++) {
        if (*p == '[') { g[o++] = '['; g[o++] = 'N'; g[o++] = ']'; while (*p && *p != ']') p++; if (!*p) break; }
        else g[o++] = *p;
    }
    g[o] = 0;
    if (o > 60) g[60] = 0;
    return g;
}

static void av(const char *rule, const char *name, const char *fmt, ...)
{
    char msg[700]; va_list ap; va_start(ap, fmt); vsnprintf(msg, sizeof msg, fmt, ap); va_end(ap);
    char key[200]; snprintf(key, sizeof key, "attr:%s:%s", rule, gname(name));
    vviol(cur_case, "attr", key, veng_detail(ctx), "%s; %s", msg, ctx);
}

/* exact-size heap buffer: [0,c) addressable, byte c poisoned by ASan */
static unsigned char *xbuf(size_t c, unsigned char **base)
{
    if (c == 0) { *base = malloc(1); return *base + 1; }
    *base = malloc(c); memset(*base, 0xA5, c); return *base;
}

#define SC(e, nm) struct vs_scope _sc = { .active = true, .nonblocking = !(e)->blocking, .api = nm, .ep = (e)->id, .plan = NULL }; vs_enter(&_sc)

static int g_get(struct vep *e, const char *name, enum xcm_attr_type *t, void *buf, size_t cap, bool viaf)
{ SC(e, "xcm_attr_get"); errno = 0; int rc = viaf ? xcm_attr_getf(e->s, t, buf, cap, "%s", name) : xcm_attr_get(e->s, name, t, buf, cap); int se = errno; vs_leave(); errno = se; return rc; }

static void caps_for(size_t len, vrng *r, size_t *caps, int *n)
{
    int k = 0;
    if (len <= 40) { for (size_t c = 0; c <= len + 2; c++) caps[k++] = c; }
    else {
        size_t fixed[] = { 0, 1, 2, 7, 8, 9, len - 2, len - 1, len, len + 1, len + 2, 255, 256, 257, 512, 513 };
        for (unsigned i = 0; i < sizeof fixed / sizeof fixed[0]; i++) caps[k++] = fixed[i];
        for (int i = 0; i < 6; i++) caps[k++] = vrnd_n(r, (uint32_t)len + 3);
    }
    *n = k;
}

/* ---- reads ---- */
static void check_reads(struct vep *e, struct snap *ref, vrng *r)
{
    for (int i = 0; i < ref->n; i++) {
        struct arec *a = &ref->a[i];
        trim_stderr();
        size_t caps[80]; int nc; caps_for(a->len, r, caps, &nc);
        for (int k = 0; k < nc; k++) {
            size_t c = caps[k];
            for (int viaf = 0; viaf < 2; viaf++) {
                unsigned char *base, *b = xbuf(c, &base);
                enum xcm_attr_type t = (enum xcm_attr_type)77;
                int rc = g_get(e, a->name, &t, b, c, viaf);
                int se = errno;
                vobs("attr_get_calls", 1);
                if (c < a->len) {
                    vobs("get_capacity_too_small", 1);
                    if (rc >= 0) av("get-accepts-small-capacity", a->name, "xcm_attr_get%s(\"%s\", capacity %zu) returned %d although the value has %zu bytes", viaf ? "f" : "", a->name, c, rc, a->len);
                    else if (se != EOVERFLOW) av("get-small-capacity-errno", a->name, "xcm_attr_get%s(\"%s\", capacity %zu) of a %zu-byte value failed with errno %d, expected EOVERFLOW", viaf ? "f" : "", a->name, c, a->len, se);
                } else {
                    if (rc < 0) av("get-fails", a->name, "xcm_attr_get%s(\"%s\", capacity %zu) failed with errno %d although the value has %zu bytes", viaf ? "f" : "", a->name, c, se, a->len);
                    else if (t != a->type) av("get-type", a->name, "xcm_attr_get(\"%s\") reported type %d, xcm_attr_get_all said %d", a->name, t, a->type);
                    else if (!a->vol && ((size_t)rc != a->len || memcmp(b, a->val, a->len))) av("get-value", a->name, "xcm_attr_get(\"%s\", capacity %zu) returned %d bytes differing from the %zu bytes xcm_attr_get_all reported", a->name, c, rc, a->len);
                    else if (a->vol && (size_t)rc != a->len) av("get-value", a->name, "xcm_attr_get(\"%s\") returned length %d, expected %zu", a->name, rc, a->len);
                    else if (a->type == xcm_attr_type_str && rc > 0 && (b[rc - 1] != 0 || strlen((char *)b) + 1 != (size_t)rc)) av("get-str-length", a->name, "string attribute \"%s\": returned length %d is not strlen+1", a->name, rc);
                }
                free(base);
            }
        }
        /* typed getters with exactly sized destinations */
        for (int viaf = 0; viaf < 2; viaf++) {
            { bool *p = malloc(sizeof(bool)); *p = false; SC(e, "xcm_attr_get_bool"); errno = 0;
              int rc = viaf ? xcm_attr_getf_bool(e->s, p, "%s", a->name) : xcm_attr_get_bool(e->s, a->name, p); int se = errno; vs_leave();
              vobs("typed_get_calls", 1);
              if (a->type == xcm_attr_type_bool) { if (rc != (int)sizeof(bool) || (!a->vol && memcmp(p, a->val, sizeof(bool)))) av("typed-get", a->name, "xcm_attr_get%s_bool(\"%s\") -> %d errno %d", viaf ? "f" : "", a->name, rc, se); }
              else { vobs("typed_get_wrong_type", 1); if (rc != -1 || se != ENOENT) av("typed-get-wrong-type", a->name, "xcm_attr_get%s_bool on \"%s\" (type %d) returned %d errno %d, expected -1/ENOENT", viaf ? "f" : "", a->name, a->type, rc, se); }
              free(p); }
            { int64_t *p = malloc(sizeof(int64_t)); *p = 0; SC(e, "xcm_attr_get_int64"); errno = 0;
              int rc = viaf ? xcm_attr_getf_int64(e->s, p, "%s", a->name) : xcm_attr_get_int64(e->s, a->name, p); int se = errno; vs_leave();
              vobs("typed_get_calls", 1);
              if (a->type == xcm_attr_type_int64) { if (rc != (int)sizeof(int64_t) || (!a->vol && memcmp(p, a->val, sizeof(int64_t)))) av("typed-get", a->name, "xcm_attr_get%s_int64(\"%s\") -> %d errno %d", viaf ? "f" : "", a->name, rc, se); }
              else { vobs("typed_get_wrong_type", 1); if (rc != -1 || se != ENOENT) av("typed-get-wrong-type", a->name, "xcm_attr_get%s_int64 on \"%s\" (type %d) returned %d errno %d, expected -1/ENOENT", viaf ? "f" : "", a->name, a->type, rc, se); }
              free(p); }
            { double *p = malloc(sizeof(double)); *p = 0; SC(e, "xcm_attr_get_double"); errno = 0;
              int rc = viaf ? xcm_attr_getf_double(e->s, p, "%s", a->name) : xcm_attr_get_double(e->s, a->name, p); int se = errno; vs_leave();
              vobs("typed_get_calls", 1);
              if (a->type == xcm_attr_type_double) { if (rc != (int)sizeof(double) || (!a->vol && memcmp(p, a->val, sizeof(double)))) av("typed-get", a->name, "xcm_attr_get%s_double(\"%s\") -> %d errno %d", viaf ? "f" : "", a->name, rc, se); }
              else { vobs("typed_get_wrong_type", 1); if (rc != -1 || se != ENOENT) av("typed-get-wrong-type", a->name, "xcm_attr_get%s_double on \"%s\" (type %d) returned %d errno %d, expected -1/ENOENT", viaf ? "f" : "", a->name, a->type, rc, se); }
              free(p); }
            /* str / bin getters over capacities */
            for (int isbin = 0; isbin < 2; isbin++) {
                enum xcm_attr_type want = isbin ? xcm_attr_type_bin : xcm_attr_type_str;
                size_t cs[5] = { 0, a->len ? a->len - 1 : 0, a->len, a->len + 1, vrnd_n(r, (uint32_t)a->len + 2) };
                for (int k = 0; k < 5; k++) {
                    size_t c = cs[k]; unsigned char *base, *b = xbuf(c, &base);
                    SC(e, isbin ? "xcm_attr_get_bin" : "xcm_attr_get_str"); errno = 0;
                    int rc;
                    if (isbin) rc = viaf ? xcm_attr_getf_bin(e->s, b, c, "%s", a->name) : xcm_attr_get_bin(e->s, a->name, b, c);
                    else rc = viaf ? xcm_attr_getf_str(e->s, (char *)b, c, "%s", a->name) : xcm_attr_get_str(e->s, a->name, (char *)b, c);
                    int se = errno; vs_leave();
                    vobs("typed_get_calls", 1);
                    const char *fn = isbin ? (viaf ? "xcm_attr_getf_bin" : "xcm_attr_get_bin") : (viaf ? "xcm_attr_getf_str" : "xcm_attr_get_str");
                    if (a->type != want) {
                        vobs("typed_get_wrong_type", 1);
                        if (rc != -1 || (se != ENOENT && se != EOVERFLOW)) av("typed-get-wrong-type", a->name, "%s on \"%s\" (type %d, capacity %zu) returned %d errno %d, expected -1/ENOENT", fn, a->name, a->type, c, rc, se);
                    } else if (c < a->len) {
                        vobs("get_capacity_too_small", 1);
                        if (rc != -1 || se != EOVERFLOW) { char rule[64]; snprintf(rule, sizeof rule, "%s-small-capacity", fn); av(rule, a->name, "%s(\"%s\", capacity %zu) of a %zu-byte value returned %d errno %d, expected -1/EOVERFLOW", fn, a->name, c, a->len, rc, se); }
                    } else if (rc < 0 || (!a->vol && ((size_t)rc != a->len || memcmp(b, a->val, a->len)))) av("typed-get", a->name, "%s(\"%s\", capacity %zu) -> %d errno %d, expected the %zu-byte value", fn, a->name, c, rc, se, a->len);
                    free(base);
                }
            }
        }
    }
    /* list lengths */
    for (int i = 0; i < ref->n; i++) {
        const char *br = strrchr(ref->a[i].name, '[');
        char ln[320];
        if (br && br[1] == '0' && br[2] == ']' && br[3] == 0) {
            snprintf(ln, sizeof ln, "%.*s", (int)(br - ref->a[i].name), ref->a[i].name);
            int cnt = 0; char pfx[330]; snprintf(pfx, sizeof pfx, "%s[", ln);
            for (int j = 0; j < ref->n; j++) if (!strncmp(ref->a[j].name, pfx, strlen(pfx)) && !strchr(ref->a[j].name + strlen(pfx), '[') && !strchr(strchr(ref->a[j].name + strlen(pfx), ']'), '.')) cnt++;
            SC(e, "xcm_attr_get_list_len"); int rc = xcm_attr_get_list_len(e->s, ln); int se = errno; vs_leave();
            vobs("list_len_calls", 1);
            if (rc != cnt) av("list-len", ln, "xcm_attr_get_list_len(\"%s\") = %d (errno %d) but xcm_attr_get_all enumerated %d elements", ln, rc, se, cnt);
        } else if (!br) {
            SC(e, "xcm_attr_get_list_len"); errno = 0; int rc = xcm_attr_get_list_len(e->s, ref->a[i].name); int se = errno; vs_leave();
            if (rc != -1 || se != ENOENT) av("list-len", ref->a[i].name, "xcm_attr_get_list_len on the value attribute \"%s\" returned %d errno %d, expected -1/ENOENT", ref->a[i].name, rc, se);
        }
    }
}

/* ---- writes ---- */
static const int64_t int_vals[] = { -1, 0, 1, 2, 5, 30, 32767, 32768, 40000, 2147483, 2147484, INT_MAX, (int64_t)INT_MAX + 1, 1LL << 40, 4294967295LL, 4294967296LL,
                                    INT64_MAX / 1000, INT64_MAX / 1000 + 1, INT64_MAX, INT64_MIN, -5 };
static const double dbl_vals[] = { -1.0, -0.0, 0.0, 0.001, 0.25, 1.5, 30.0, 1e9, 1e300, NAN, INFINITY, -INFINITY };
static const char *const str_vals[] = { "", "x", "single", "sequential", "happy_eyeballs", "messaging", "bytestream", "any", "Single", "tcp:127.0.0.1:0", "tcp:127.0.0.77:0",
                                        "ux:zzz", "/nonexistent/file.pem", "a:b", "name.verif.test", "a.verif.test:b.verif.test", ":", "name with space" };

static bool held_state(enum vst st) { return st == ST_CONNECTING || st == ST_RESOLVING || st == ST_HANDSHAKING; }

static int do_set(struct vep *e, const char *name, enum xcm_attr_type t, const void *val, size_t len)
{
    /* the value lives in an exact-size heap block, so a setter reading beyond `len` is seen by ASan */
    unsigned char *base, *b = xbuf(len, &base);
    if (len) memcpy(b, val, len);
    SC(e, "xcm_attr_set"); errno = 0;
    int rc = xcm_attr_set(e->s, name, t, b, len);
    int se = errno; vs_leave();
    free(base);
    errno = se;
    return rc;
}

static void check_set_outcome(struct vep *e, struct arec *a, bool exists, bool type_ok, bool len_ok, enum xcm_attr_type t, const void *val, size_t len, int rc, int se,
                              struct snap *before, const char *what)
{
    vobs("attr_set_calls", 1);
    const char *name = a ? a->name : what;
    if (rc == 0 && (!exists || !type_ok || !len_ok)) {
        av(!exists ? "set-unknown-accepted" : !type_ok ? "set-wrong-type-accepted" : "set-wrong-length-accepted", name,
           "xcm_attr_set(\"%s\", type %d, len %zu) succeeded (%s)", name, t, len, what);
        return;
    }
    if (rc < 0) {
        vobs("attr_set_rejected", 1);
        if (!strcmp(name, "xcm.blocking") && veng_is_conn_errno(se)) { /* the switch finishes outstanding work, which may discover a dead connection */ }
        else if (se != ENOENT && se != EACCES && se != EINVAL) av("set-errno", name, "xcm_attr_set(\"%s\", type %d, len %zu) failed with errno %d (%s), documented are ENOENT/EACCES/EINVAL; %s", name, t, len, se, strerror(se), what);
        else if (!exists && se != ENOENT && se != EINVAL) av("set-errno", name, "xcm_attr_set on the non-existent \"%s\" failed with errno %d, expected ENOENT", name, se);
        else if (exists && se == ENOENT) av("set-errno", name, "xcm_attr_set on the existing \"%s\" (type %d, len %zu) failed with ENOENT; %s", name, t, len, what);
        /* a switch to blocking mode that discovered a dead connection (user time-out of a back-pressured socket on a slow machine, ...) did not
         * cause what it discovered: the attribute set of a failed connection differs for that reason, not because of the rejected set */
        if (!strcmp(name, "xcm.blocking") && veng_is_conn_errno(se)) {
            vobs("blocking_switch_found_dead_connection", 1);
            /* ... but the refused switch itself must not have happened: the mode reads as before, and the calls of a non-blocking socket still work */
            bool now = false; int g; { SC(e, "xcm_attr_get"); g = xcm_attr_get_bool(e->s, "xcm.blocking", &now); vs_leave(); }
            bool was = false; struct arec *ab = snap_find(before, "xcm.blocking"); if (ab && ab->len == 1) was = ab->val[0] != 0;
            if (g > 0 && ab && now != was) av("set-rejected-with-side-effect", name, "xcm_attr_set(\"xcm.blocking\", %d) failed with errno %d (%s), yet xcm.blocking now reads %d (it was %d); %s", len ? ((const unsigned char *)val)[0] : -1, se, strerror(se), now, was, what);
            if (g > 0 && ab && !was) { int fdr; { SC(e, "xcm_fd"); fdr = xcm_fd(e->s); vs_leave(); } if (fdr < 0) av("set-rejected-with-side-effect", name, "after the refused switch to blocking mode xcm_fd() fails with errno %d on a socket that is still non-blocking; %s", errno, what); }
            return;
        }
        struct snap after; snap_take(e, &after);
        const char *d = snap_diff(before, &after, NULL);
        if (d) { vobs("set_side_effect_checks", 0); av("set-rejected-with-side-effect", name, "xcm_attr_set(\"%s\", type %d, len %zu) was rejected with errno %d, yet %s; %s", name, t, len, se, d, what); }
        vobs("set_side_effect_checks", 1);
        snap_free(&after);
    } else {
        vobs("attr_set_accepted", 1);
        struct snap after; snap_take(e, &after);
        const char *d = snap_diff(before, &after, name);
        if (d && strcmp(name, "xcm.blocking")) av("set-changed-other-attribute", name, "xcm_attr_set(\"%s\") succeeded and %s; %s", name, d, what);
        snap_free(&after);
    }
}

static void check_writes(struct vep *e, struct snap *ref0, vrng *r, enum vst st)
{
    struct snap cur; snap_take(e, &cur);
    int n = cur.n;
    for (int i = 0; i < n; i++) {
        char name[320]; snprintf(name, sizeof name, "%s", cur.a[i].name);
        enum xcm_attr_type at = cur.a[i].type;
        trim_stderr();
        /* 1: every wrong type */
        for (int t = xcm_attr_type_bool; t <= xcm_attr_type_bin; t++) {
            if (t == (int)at) continue;
            unsigned char v[16] = { 1, 0, 0, 0, 0, 0, 0, 0, 0 }; size_t len = t == xcm_attr_type_bool ? 1 : t == xcm_attr_type_str ? 2 : 8;
            if (t == xcm_attr_type_str) { v[0] = 'a'; v[1] = 0; }
            struct snap before; snap_take(e, &before);
            struct arec *a = snap_find(&before, name);
            if (!a) { snap_free(&before); continue; }
            int rc = do_set(e, name, (enum xcm_attr_type)t, v, len); int se = errno;
            vobs("set_wrong_type", 1);
            check_set_outcome(e, a, true, false, true, (enum xcm_attr_type)t, v, len, rc, se, &before, "wrong type");
            snap_free(&before);
        }
        /* 2: right type, wrong length */
        if (at == xcm_attr_type_bool || at == xcm_attr_type_int64 || at == xcm_attr_type_double) {
            size_t right = at == xcm_attr_type_bool ? 1 : 8;
            size_t lens[] = { 0, right - 1, right + 1, 4, 16 };
            for (unsigned k = 0; k < 5; k++) {
                if (lens[k] == right) continue;
                unsigned char v[16] = { 0 };
                struct snap before; snap_take(e, &before);
                struct arec *a = snap_find(&before, name);
                if (a) { int rc = do_set(e, name, at, v, lens[k]); int se = errno; vobs("set_wrong_length", 1);
                    check_set_outcome(e, a, true, true, false, at, v, lens[k], rc, se, &before, "wrong length"); }
                snap_free(&before);
            }
        } else if (at == xcm_attr_type_str) {
            struct snap before; snap_take(e, &before); struct arec *a = snap_find(&before, name);
            if (a) { int rc = do_set(e, name, at, "", 0); int se = errno; vobs("set_wrong_length", 1);
                check_set_outcome(e, a, true, true, false, at, "", 0, rc, se, &before, "zero-length string"); }
            snap_free(&before);
        }
        /* 3: right type and length, admissible and inadmissible values */
        int nvals = at == xcm_attr_type_bool ? 2 : at == xcm_attr_type_int64 ? (int)(sizeof int_vals / sizeof int_vals[0]) : at == xcm_attr_type_double ? (int)(sizeof dbl_vals / sizeof dbl_vals[0]) :
                    at == xcm_attr_type_str ? (int)(sizeof str_vals / sizeof str_vals[0]) + 2 : 4;
        for (int k = 0; k < nvals; k++) {
            unsigned char vb[1200]; size_t len = 0; char what[96];
            switch (at) {
            case xcm_attr_type_bool: vb[0] = (unsigned char)k; len = 1; snprintf(what, sizeof what, "bool %d", k); break;
            case xcm_attr_type_int64: memcpy(vb, &int_vals[k], 8); len = 8; snprintf(what, sizeof what, "int64 %" PRId64, int_vals[k]); break;
            case xcm_attr_type_double: memcpy(vb, &dbl_vals[k], 8); len = 8; snprintf(what, sizeof what, "double %g", dbl_vals[k]); break;
            case xcm_attr_type_str:
                if (k < (int)(sizeof str_vals / sizeof str_vals[0])) { len = strlen(str_vals[k]) + 1; memcpy(vb, str_vals[k], len); }
                else if (k == (int)(sizeof str_vals / sizeof str_vals[0])) { len = 600; memset(vb, 'y', 599); vb[599] = 0; }
                else { len = 1100; memset(vb, 'z', 1099); vb[1099] = 0; }
                snprintf(what, sizeof what, "string \"%.40s\" (len %zu)", (char *)vb, len); break;
            default: len = k == 0 ? 0 : k == 1 ? 1 : k == 2 ? 700 : 64; for (size_t j = 0; j < len; j++) vb[j] = (unsigned char)vrnd(r); snprintf(what, sizeof what, "binary of %zu bytes", len); break;
            }
            if (!strcmp(name, "xcm.blocking") && vb[0] && held_state(st)) continue;   /* switching to blocking waits for the pending work: not this property */
            struct snap before; snap_take(e, &before);
            struct arec *a = snap_find(&before, name);
            if (!a) { snap_free(&before); continue; }
            int rc = do_set(e, name, at, vb, len); int se = errno;
            vobs("set_right_type", 1);
            check_set_outcome(e, a, true, true, true, at, vb, len, rc, se, &before, what);
            if (!strcmp(name, "xcm.blocking")) { SC(e, "xcm_attr_set"); xcm_attr_set_bool(e->s, "xcm.blocking", false); vs_leave(); }
            snap_free(&before);
            if (vviol_count() > 8) break;
        }
        if (vviol_count() > 8) break;
    }
    snap_free(&cur);
    (void)ref0;
}

/* ---- hostile names ---- */
static const char *const absent_names[] = { "xcm.nonexistent", "tls.peer.cert.subject.cn", "tls.peer_subject_key_id", "tls.peer.cert.san.dns[0]", "tls.peer.cert.san.dns[999]", "tls.peer.cert.san.dns",
    "tls.peer.cert.san", "tls.peer.cert", "tls.peer", "tls", "xcm", "tcp", "dns", "xcm.type.x", "xcm.type[0]", "tcp.rtt", "ipv6.scope", "dns.algorithm", "tcp.connect_timeout", "xcm.remote_addr",
    "tls.key", "tls.cert", "tls.tc", "tls.crl", "tls.peer_names", "xcm.service", "xcm.max_msg_size", "tls.peer.cert.san.emails[0]", "tls.peer.cert.san.dirs[0].cn", "tls.peer.cert.san.dirs[0]" };

static char *gen_name(vrng *r, struct snap *ref)
{
    size_t cap = 20000; char *s = malloc(cap); s[0] = 0;
    unsigned k = vrnd_n(r, 16);
    const char *base = ref->n ? ref->a[vrnd_n(r, (uint32_t)ref->n)].name : "xcm.type";
    switch (k) {
    case 0: { size_t n = 1 + vrnd_n(r, 300); for (size_t i = 0; i < n; i++) s[i] = (char)(32 + vrnd_n(r, 95)); s[n] = 0; break; }
    case 1: { size_t n = 9000 + vrnd_n(r, 4000); memset(s, 'a', n); s[n] = 0; break; }
    case 2: { int comps = 60 + (int)vrnd_n(r, 200); size_t o = 0; for (int i = 0; i < comps; i++) o += (size_t)sprintf(s + o, "%sa", i ? "." : ""); break; }
    case 3: { int comps = 60 + (int)vrnd_n(r, 200); size_t o = (size_t)sprintf(s, "a"); for (int i = 0; i < comps; i++) o += (size_t)sprintf(s + o, "[%u]", vrnd_n(r, 3)); break; }
    case 4: sprintf(s, "%s[99999999999999999999999]", base); break;
    case 5: sprintf(s, "%s[", base); break;
    case 6: sprintf(s, "%s]", base); break;
    case 7: sprintf(s, "%s..x", base); break;
    case 8: sprintf(s, ".%s", base); break;
    case 9: sprintf(s, "%s.", base); break;
    case 10: s[0] = 0; break;
    case 11: sprintf(s, "%s[-1]", base); break;
    case 12: sprintf(s, "%s[4294967296]", base); break;
    case 13: { size_t n = 1 + vrnd_n(r, 100); for (size_t i = 0; i < n; i++) s[i] = (char)(1 + vrnd_n(r, 255)); s[n] = 0; break; }
    case 14: { /* mutate one character of a real name */ strcpy(s, base); size_t l = strlen(s); if (l) s[vrnd_n(r, (uint32_t)l)] = "[].%x0 "[vrnd_n(r, 7)]; break; }
    default: { /* long key component */ size_t n = 60 + vrnd_n(r, 300); memset(s, 'k', n); s[n] = 0; if (vrnd_p(r, 50)) { memmove(s + 4, s, n + 1); memcpy(s, "xcm.", 4); } break; }
    }
    return s;
}

static void check_names(struct vep *e, struct snap *ref, vrng *r, int count)
{
    for (int i = 0; i < count + (int)(sizeof absent_names / sizeof absent_names[0]); i++) {
        char *name; bool fixed = i >= count;
        if ((i & 15) == 0) trim_stderr();
        if (fixed) name = strdup(absent_names[i - count]); else name = gen_name(r, ref);
        /* the name itself lives in an exact-size heap block (over-reads of the name are seen) */
        size_t nl = strlen(name) + 1; char *nm = malloc(nl); memcpy(nm, name, nl); free(name);
        struct arec *known = snap_find(ref, nm);
        size_t c = vrnd_n(r, 40); unsigned char *base, *b = xbuf(c, &base);
        enum xcm_attr_type t;
        int rc = g_get(e, nm, &t, b, c, vrnd_p(r, 30)); int se = errno;
        vobs("hostile_name_calls", 1);
        if (!known) {
            if (rc >= 0) {
                /* a name get_all did not list may still be a legitimate readable attribute only if get_all is incomplete: flag */
                av("get-unlisted-name-succeeds", fixed ? nm : "generated", "xcm_attr_get(\"%.80s\") succeeded (%d bytes) although xcm_attr_get_all does not list that name", nm, rc);
            }
            /* which errno a name absent in this state yields is not this property's subject; it must fail */
        }
        free(base);
        if (!known) {
            int64_t iv = 1; bool bv = true; double dv = 1;
            struct snap before; bool snapd = vrnd_p(r, 10); if (snapd) snap_take(e, &before);
            int which = (int)vrnd_n(r, 5);
            errno = 0;
            switch (which) {
            case 0: rc = do_set(e, nm, xcm_attr_type_bool, &bv, 1); break;
            case 1: rc = do_set(e, nm, xcm_attr_type_int64, &iv, 8); break;
            case 2: rc = do_set(e, nm, xcm_attr_type_double, &dv, 8); break;
            case 3: rc = do_set(e, nm, xcm_attr_type_str, "v", 2); break;
            default: rc = do_set(e, nm, xcm_attr_type_bin, "vvvv", 4); break;
            }
            se = errno;
            /* a documented name that xcm_attr_get_all does not list may exist without a readable value (write-only, unset): only generated names must be unknown */
            if (rc == 0 && fixed) vobs("documented_unlisted_name_set_accepted", 1);
            else if (rc == 0) av("set-unknown-accepted", "generated", "xcm_attr_set(\"%.80s\") succeeded although the attribute does not exist", nm);
            else if (se != ENOENT && se != EINVAL && se != EACCES) av("set-errno", fixed ? nm : "generated", "xcm_attr_set(\"%.80s\") failed with errno %d", nm, se);
            if (snapd) { struct snap after; snap_take(e, &after); const char *d = snap_diff(&before, &after, NULL); if (d) av("set-rejected-with-side-effect", "generated", "rejected set of \"%.60s\": %s", nm, d); snap_free(&after); snap_free(&before); }
            { SC(e, "xcm_attr_get_list_len"); errno = 0; rc = xcm_attr_get_list_len(e->s, nm); se = errno; vs_leave(); }
            /* a prefix of listed list elements is a list: accept; otherwise must fail */
            bool is_list = false; { char pfx[400]; snprintf(pfx, sizeof pfx, "%.300s[", nm); for (int j = 0; j < ref->n; j++) if (!strncmp(ref->a[j].name, pfx, strlen(pfx))) is_list = true; }
            if (!is_list && (rc >= 0 || (se != ENOENT && se != EINVAL && se != EACCES))) av("list-len", fixed ? nm : "generated", "xcm_attr_get_list_len(\"%.80s\") returned %d errno %d", nm, rc, se);
        }
        free(nm);
    }
}

/* ---- the case ---- */
struct ccase { enum vtp tp; enum vst st; bool debug; bool byvalue; };

static void gen_case(struct ccase *c, long idx)
{
    static const enum vtp tps[] = { TP_UX, TP_UXF, TP_TCP, TP_TLS, TP_UTLS_UX, TP_UTLS_TLS, TP_BTCP, TP_BTLS };
    long gi = idx * va.nworkers + va.worker;
    /* enumerate applicable (transport, state) pairs round-robin */
    static int pairs[64][2]; static int npairs;
    if (!npairs) for (int t = 0; t < 8; t++) for (int s = 0; s < ST_N; s++) if (vstate_applicable(tps[t], (enum vst)s)) { pairs[npairs][0] = tps[t]; pairs[npairs][1] = s; npairs++; }
    c->tp = (enum vtp)pairs[gi % npairs][0]; c->st = (enum vst)pairs[gi % npairs][1];
    c->debug = ((gi / npairs) % 3) == 1;
    c->byvalue = vtp_is_tls(c->tp) && ((gi / npairs) % 2) == 1;
}

static void one_case(long idx, void *arg)
{
    (void)arg;
    struct ccase c; gen_case(&c, idx);
    cur_case = idx;
    uint64_t ss = vsub_seed(va.seed, (uint64_t)va.worker, (uint64_t)idx);
    vrng r = { ss };
    snprintf(ctx, sizeof ctx, "{\"case\":%ld,\"sub_seed\":\"%" PRIu64 "\",\"transport\":\"%s\",\"state\":\"%s\",\"debug_log\":%d,\"tls_by_value\":%d}", idx, ss, vtp_name[c.tp], vst_name[c.st], c.debug, c.byvalue);
    VLOG("case %s", ctx);
    if (c.debug) { debug_on = true; log_console_conf(true); }
    struct xcm_attr_map *ca = NULL;
    if (c.byvalue) {
        ca = xcm_attr_map_create();
        char *tc = veng_ca->cert_pem;
        xcm_attr_map_add_bin(ca, "tls.cert", veng_leaf->cert_pem, strlen(veng_leaf->cert_pem));
        xcm_attr_map_add_bin(ca, "tls.key", veng_leaf->key_pem, strlen(veng_leaf->key_pem));
        xcm_attr_map_add_bin(ca, "tls.tc", tc, strlen(tc));
    }
    struct vstate v; char why[300];
    if (vstate_make(&v, c.tp, c.st, ss, ca, why, sizeof why) < 0) {
        VLOG("state not reached: %s", why);
        char cl[120]; snprintf(cl, sizeof cl, "state-not-reached:%s/%s", vtp_name[c.tp], vst_name[c.st]); vclass(cl);
        vobs("state_not_reached", 1);
        vstate_free(&v); if (ca) xcm_attr_map_destroy(ca);
        vcase_done(false); return;
    }
    if (ca) xcm_attr_map_destroy(ca);
    struct vep *eps[3]; int ne = vstate_sockets(&v, eps, 3);
    long pairs = 0;
    for (int i = 0; i < ne && vviol_count() == 0; i++) {
        struct vep *e = eps[i];
        struct snap ref; snap_take(e, &ref);
        vobs("sockets_examined", 1); vobs("attributes_enumerated", ref.n);
        for (int j = 0; j < ref.n; j++) { char sg[200]; snprintf(sg, sizeof sg, "%s|%s|%s|%s", vtp_name[c.tp], vst_name[c.st], e->is_server ? "server" : e == &v.ac ? "accepted" : "client", gname(ref.a[j].name)); vsig_str(sg); pairs++; }
        check_reads(e, &ref, &r);
        if (vviol_count() == 0) check_names(e, &ref, &r, va.thorough ? 120 : 40);
        if (vviol_count() == 0) check_writes(e, &ref, &r, c.st);
        snap_free(&ref);
    }
    char cl[120]; snprintf(cl, sizeof cl, "%s/%s", vtp_name[c.tp], vst_name[c.st]); vclass(cl);
    if (idx < 2) vsample(ctx);
    vstate_free(&v);
    vcase_done(pairs > 0);
}

int main(int argc, char **argv)
{
    vparse_args(argc, argv);
    signal(SIGPIPE, SIG_IGN);
    veng_global_init();
    /* a leaf with subject alternative names so that the list attributes exist */
    {
        static const char *dns[] = { "a.verif.test", "b.verif.test", "c.verif.test", "d.verif.test", "e.verif.test" };
        static const char *em[] = { "x@verif.test", "y@verif.test" };
        static const char *dir[] = { "dir-one", "dir-two" };
        struct vpki_opts o; vpki_opts_default(&o); o.eku = VPKI_EKU_BOTH;
        o.san_dns = dns; o.n_san_dns = 5; o.san_email = em; o.n_san_email = 2; o.san_dir_cn = dir; o.n_san_dir_cn = 2;
        veng_leaf = vpki_make("verif-peer-with-sans", veng_ca, &o);
        vpki_write_dir(veng_tls_dir, veng_leaf->cert_pem, veng_leaf->key_pem, veng_ca->cert_pem, NULL);
    }
    for (long i = 0; i < va.cases; i++) {
        if (va.only >= 0 && i != va.only) continue;
        if (va.only >= 0) { one_case(i, NULL); continue; }
        struct ccase c; gen_case(&c, i);
        char cls[96]; snprintf(cls, sizeof cls, "C10:%s:%s", vtp_name[c.tp], vst_name[c.st]);
        vfork_case(i, one_case, NULL, 240, cls);
        if (vstop_early()) break;
    }
    vsummary(true);
    return 0;
}
