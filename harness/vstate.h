/* vstate.h - factory of XCM sockets *held* in a chosen phase of their life,
 * shared by the checks that quantify over connection states (C05, C10, C11,
 * C14): fresh server, established pair, peer closed, failed, TCP connecting
 * (no-answer address), resolving (silent stub resolver), TLS handshaking
 * (silent raw peer), back-pressured. */
#ifndef VSTATE_H
#define VSTATE_H

#include "veng.h"
#include "vnet.h"
#include "vdns.h"

enum vst {
    ST_ESTABLISHED,     /* cl <-> ac, sv */
    ST_PEER_CLOSED,     /* ac closed by the harness; cl has seen 0 from xcm_receive */
    ST_PEER_CLOSED_UNSEEN, /* ac closed; cl has not been told yet */
    ST_FAILED,          /* cl saw an injected ECONNRESET on a read */
    ST_BACKPRESSURED,   /* cl has sent until EAGAIN, ac does not read */
    ST_CONNECTING,      /* TCP based: SYN unanswered */
    ST_RESOLVING,       /* TCP based: resolver silent */
    ST_HANDSHAKING,     /* TLS based: TCP established to a silent raw peer */
    ST_N
};
extern const char *const vst_name[ST_N];

struct vstate {
    enum vtp tp; enum vst st;
    struct vep cl, ac, sv;
    struct vnet_noanswer na; bool have_na;
    int raw_lfd, raw_cfd;
    int port;
};

/* true if the (transport, state) combination exists */
bool vstate_applicable(enum vtp tp, enum vst st);
/* conn_attrs/server_attrs may be NULL; xcm.blocking=false is always added.  returns 0 or -1 with why */
int vstate_make(struct vstate *v, enum vtp tp, enum vst st, uint64_t seed,
                struct xcm_attr_map *conn_attrs, char *why, size_t why_cap);
void vstate_free(struct vstate *v);
/* sockets alive in this state: fills out[] with endpoints (cl, ac, sv as present); returns count */
int vstate_sockets(struct vstate *v, struct vep **out, int max);

#endif
