#include "vcommon.h"

#include <signal.h>
#include <sys/wait.h>
#include <time.h>

struct vargs va;

static long n_cases, n_nontrivial, n_viol;
static char *known_keys[64]; static int n_known_keys;
#define MAX_OBS 96
static struct { char name[48]; long v; bool is_max; } obs[MAX_OBS];
static int n_obs;
#define MAX_CLS 256
static struct { char name[64]; long v; } cls[MAX_CLS];
static int n_cls;
#define SIG_CAP (1u << 16)
static uint64_t *sigs;
static unsigned n_sigs;
static int n_samples;

double vnow(void)
{
    struct timespec ts;
    clock_gettime(CLOCK_MONOTONIC, &ts);
    return ts.tv_sec + ts.tv_nsec / 1e9;
}

void vparse_args(int argc, char **argv)
{
    va.prop = "?"; va.seed = 1; va.worker = 0; va.nworkers = 1; va.cases = 1;
    va.dir = "."; va.only = -1; va.mode = ""; va.argc = argc; va.argv = argv;
    for (int i = 1; i < argc; i++) {
        const char *a = argv[i];
        const char *n = i + 1 < argc ? argv[i + 1] : "";
        if (!strcmp(a, "--prop")) { va.prop = n; i++; }
        else if (!strcmp(a, "--seed")) { va.seed = strtoull(n, NULL, 10); i++; }
        else if (!strcmp(a, "--worker")) { va.worker = atoi(n); i++; }
        else if (!strcmp(a, "--nworkers")) { va.nworkers = atoi(n); i++; }
        else if (!strcmp(a, "--cases")) { va.cases = atol(n); i++; }
        else if (!strcmp(a, "--tier")) { va.thorough = !strcmp(n, "thorough"); i++; }
        else if (!strcmp(a, "--dir")) { va.dir = n; i++; }
        else if (!strcmp(a, "--only")) { va.only = atol(n); i++; }
        else if (!strcmp(a, "--mode")) { va.mode = n; i++; }
        else if (!strcmp(a, "--verbose")) va.verbose = true;
        else if (!strncmp(a, "--x-", 4)) i++; /* extra, fetched by varg_extra */
    }
    const char *kk = getenv("VERIF_KNOWN_KEYS");
    if (kk && *kk) { char *dup = strdup(kk); for (char *t = strtok(dup, "\n"); t && n_known_keys < 64; t = strtok(NULL, "\n")) known_keys[n_known_keys++] = t; }
    sigs = calloc(SIG_CAP, sizeof(uint64_t));
    setvbuf(stdout, NULL, _IOLBF, 0);
}

const char *varg_extra(const char *name, const char *dflt)
{
    char key[64];
    snprintf(key, sizeof key, "--x-%s", name);
    for (int i = 1; i + 1 < va.argc; i++)
        if (!strcmp(va.argv[i], key))
            return va.argv[i + 1];
    return dflt;
}

void vjson_escape(FILE *f, const char *s)
{
    fputc('"', f);
    for (; *s; s++) {
        unsigned char c = (unsigned char)*s;
        if (c == '"' || c == '\\') { fputc('\\', f); fputc(c, f); }
        else if (c == '\n') fputs("\\n", f);
        else if (c < 0x20 || c >= 0x7f) fprintf(f, "\\u%04x", c);
        else fputc(c, f);
    }
    fputc('"', f);
}

static void emit_buf(char *buf, size_t len)
{
    /* one write per line so lines of parent and forked children never mix */
    size_t off = 0;
    fflush(stdout);
    while (off < len) {
        ssize_t w = write(1, buf + off, len - off);
        if (w <= 0) break;
        off += (size_t)w;
    }
}

void vviol(long case_idx, const char *rule, const char *key, const char *detail_json,
           const char *msg_fmt, ...)
{
    char msg[2048];
    va_list ap;
    va_start(ap, msg_fmt);
    vsnprintf(msg, sizeof msg, msg_fmt, ap);
    va_end(ap);
    /* a finding listed in known_findings.json is reported (the driver prints KNOWN-FINDING) but does not count as a
     * violation inside the harness: the case carries on, nothing stops early */
    bool known = false;
    for (int i = 0; i < n_known_keys; i++) if (!strcmp(known_keys[i], key)) known = true;
    if (!known) n_viol++;
    /* one report per distinct key and process; do not flood */
    static uint64_t seen[64]; static int n_seen;
    uint64_t kh = vhash_str(key);
    for (int i = 0; i < n_seen; i++) if (seen[i] == kh) return;
    if (n_seen >= 64) return;
    seen[n_seen++] = kh;
    char *buf = NULL; size_t len = 0;
    FILE *f = open_memstream(&buf, &len);
    fprintf(f, "{\"t\":\"viol\",\"case\":%ld,\"rule\":", case_idx);
    vjson_escape(f, rule);
    fputs(",\"key\":", f); vjson_escape(f, key);
    fputs(",\"msg\":", f); vjson_escape(f, msg);
    fprintf(f, ",\"sub_seed\":\"%" PRIu64 "\"", vsub_seed(va.seed, (uint64_t)va.worker, (uint64_t)case_idx));
    if (detail_json && *detail_json) fprintf(f, ",\"detail\":{%s}", detail_json);
    fputs("}\n", f);
    fclose(f);
    emit_buf(buf, len);
    free(buf);
    if (va.verbose) fprintf(stderr, "VIOLATION[%s] %s: %s\n", rule, key, msg);
}

void vsample(const char *json_obj)
{
    if (n_samples >= 2) return;
    n_samples++;
    char *buf = NULL; size_t len = 0;
    FILE *f = open_memstream(&buf, &len);
    fprintf(f, "{\"t\":\"sample\",\"s\":%s}\n", json_obj);
    fclose(f);
    emit_buf(buf, len);
    free(buf);
}

void vinconclusive(const char *why_fmt, ...)
{
    char msg[1024];
    va_list ap;
    va_start(ap, why_fmt);
    vsnprintf(msg, sizeof msg, why_fmt, ap);
    va_end(ap);
    char *buf = NULL; size_t len = 0;
    FILE *f = open_memstream(&buf, &len);
    fputs("{\"t\":\"inconclusive\",\"why\":", f); vjson_escape(f, msg); fputs("}\n", f);
    fclose(f);
    emit_buf(buf, len);
    free(buf);
}

static int obs_idx(const char *name, bool is_max)
{
    for (int i = 0; i < n_obs; i++)
        if (!strcmp(obs[i].name, name)) return i;
    if (n_obs >= MAX_OBS) return -1;
    snprintf(obs[n_obs].name, sizeof obs[n_obs].name, "%s", name);
    obs[n_obs].v = 0; obs[n_obs].is_max = is_max;
    return n_obs++;
}
void vobs(const char *name, long delta) { int i = obs_idx(name, false); if (i >= 0) obs[i].v += delta; }
void vobs_max(const char *name, long v) { int i = obs_idx(name, true); if (i >= 0 && v > obs[i].v) obs[i].v = v; }

void vclass(const char *name)
{
    for (int i = 0; i < n_cls; i++)
        if (!strcmp(cls[i].name, name)) { cls[i].v++; return; }
    if (n_cls >= MAX_CLS) return;
    snprintf(cls[n_cls].name, sizeof cls[n_cls].name, "%s", name);
    cls[n_cls++].v = 1;
}

uint64_t vhash_mem(const void *p, size_t n)
{
    const unsigned char *b = p; uint64_t h = 1469598103934665603ULL;
    for (size_t i = 0; i < n; i++) { h ^= b[i]; h *= 1099511628211ULL; }
    return vmix(h);
}
uint64_t vhash_str(const char *s) { return vhash_mem(s, strlen(s)); }

void vsig(uint64_t h)
{
    if (h == 0) h = 1;
    unsigned i = (unsigned)(h & (SIG_CAP - 1));
    for (unsigned probes = 0; probes < SIG_CAP; probes++, i = (i + 1) & (SIG_CAP - 1)) {
        if (sigs[i] == h) return;
        if (sigs[i] == 0) {
            if (n_sigs >= SIG_CAP * 3 / 4) return;
            sigs[i] = h; n_sigs++; return;
        }
    }
}
void vsig_str(const char *s) { vsig(vhash_str(s)); }

void vcase_done(bool nontrivial) { n_cases++; if (nontrivial) n_nontrivial++; }
long vviol_count(void) { return n_viol; }

void vsummary(bool final)
{
    char *buf = NULL; size_t len = 0;
    FILE *f = open_memstream(&buf, &len);
    fprintf(f, "{\"t\":\"sum\",\"cases\":%ld,\"nontrivial\":%ld,\"final\":%s,\"obs\":{",
            n_cases, n_nontrivial, final ? "true" : "false");
    for (int i = 0; i < n_obs; i++) {
        if (i) fputc(',', f);
        fprintf(f, "\"%s%s\":%ld", (obs[i].is_max && strncmp(obs[i].name, "max_", 4)) ? "max_" : "", obs[i].name, obs[i].v);
    }
    fputs("},\"classes\":{", f);
    for (int i = 0; i < n_cls; i++) {
        if (i) fputc(',', f);
        vjson_escape(f, cls[i].name);
        fprintf(f, ":%ld", cls[i].v);
    }
    fputs("},\"sigs\":[", f);
    bool first = true;
    for (unsigned i = 0; i < SIG_CAP; i++)
        if (sigs[i]) { fprintf(f, "%s\"%" PRIx64 "\"", first ? "" : ",", sigs[i]); first = false; }
    fputs("]}\n", f);
    fclose(f);
    emit_buf(buf, len);
    free(buf);
    /* reset so a later summary does not double count */
    n_cases = n_nontrivial = 0;
    for (int i = 0; i < n_obs; i++) obs[i].v = 0;
    for (int i = 0; i < n_cls; i++) cls[i].v = 0;
    memset(sigs, 0, SIG_CAP * sizeof(uint64_t)); n_sigs = 0;
}

static int run_child(long idx, vcase_fn fn, void *arg, int watchdog_s, pid_t *pid_out, int *status_out)
{
    fflush(stdout); fflush(stderr);
    pid_t pid = fork();
    if (pid < 0) return -2;
    if (pid == 0) {
        /* child: fresh counters; own stderr file so UBSan/assert text can be attributed */
        if (!va.verbose) {
            char ep[512]; snprintf(ep, sizeof ep, "%s/case.%d.err", va.dir, (int)getpid());
            if (!freopen(ep, "w", stderr)) { /* keep the inherited one */ }
            setvbuf(stderr, NULL, _IONBF, 0);
        }
        n_cases = n_nontrivial = n_viol = 0; n_obs = 0; n_cls = 0; n_samples = n_samples ? 2 : 0;
        memset(sigs, 0, SIG_CAP * sizeof(uint64_t)); n_sigs = 0;
        fn(idx, arg);
        vsummary(false);
        fflush(stdout);
        exit(n_viol > 0 ? 77 : 0);   /* runs LeakSanitizer when enabled; 77 = violations were reported in the normal way */
    }
    *pid_out = pid;
    double deadline = vnow() + watchdog_s;
    for (;;) {
        int st;
        pid_t r = waitpid(pid, &st, WNOHANG);
        if (r == pid) { *status_out = st; return 0; }
        if (vnow() > deadline) {
            kill(pid, SIGKILL);
            waitpid(pid, &st, 0);
            return -1; /* timeout */
        }
        struct timespec ts = { 0, 2000000 };
        nanosleep(&ts, NULL);
    }
}

static int n_bad_cases, n_hung_cases; static bool stop_on_hangs_only;
void vstop_early_hangs_only(bool on) { stop_on_hangs_only = on; }
bool vstop_early(void) { return stop_on_hangs_only ? n_hung_cases >= 2 : n_bad_cases >= 3; }

int vfork_case(long idx, vcase_fn fn, void *arg, int watchdog_s, const char *clsname)
{
    pid_t pid = 0; int st = 0;
    int rc = run_child(idx, fn, arg, watchdog_s, &pid, &st);
    if (rc == -2) { vinconclusive("fork failed: %s", strerror(errno)); return -1; }
    if (rc == -1) {
        /* watchdog: re-run once before reporting anything */
        vobs("watchdog_retries", 1);
        rc = run_child(idx, fn, arg, watchdog_s * 2, &pid, &st);
        if (rc == -1) {
            printf("{\"t\":\"exit\",\"case\":%ld,\"pid\":%d,\"status\":\"timeout\",\"cls\":\"%s\"}\n",
                   idx, (int)pid, clsname);
            fflush(stdout);
            n_bad_cases++; n_hung_cases++;
            return -1;
        }
    }
    if (WIFEXITED(st) && (WEXITSTATUS(st) == 0 || WEXITSTATUS(st) == 77)) {
        char ep[512]; snprintf(ep, sizeof ep, "%s/case.%d.err", va.dir, (int)pid);
        unlink(ep);
        if (WEXITSTATUS(st) == 77) n_bad_cases++;
        return 0;
    }
    n_bad_cases++;
    char stbuf[32];
    if (WIFSIGNALED(st)) snprintf(stbuf, sizeof stbuf, "sig%d", WTERMSIG(st));
    else snprintf(stbuf, sizeof stbuf, "exit%d", WEXITSTATUS(st));
    printf("{\"t\":\"exit\",\"case\":%ld,\"pid\":%d,\"status\":\"%s\",\"cls\":\"%s\"}\n",
           idx, (int)pid, stbuf, clsname);
    fflush(stdout);
    return -1;
}

void vhex(char *out, const void *p, size_t n, size_t max_bytes)
{
    const unsigned char *b = p; size_t m = n < max_bytes ? n : max_bytes; size_t o = 0;
    for (size_t i = 0; i < m; i++) o += (size_t)sprintf(out + o, "%02x", b[i]);
    if (n > m) sprintf(out + o, "..(%zu)", n);
    else out[o] = 0;
}
