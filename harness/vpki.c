#include "vpki.h"

#include <openssl/bio.h>
#include <openssl/ec.h>
#include <openssl/pem.h>
#include <openssl/x509v3.h>
#include <stdio.h>
#include <stdlib.h>
#include <string.h>
#include <sys/stat.h>
#include <time.h>

static long next_serial = 1000;

void vpki_opts_default(struct vpki_opts *o)
{
    memset(o, 0, sizeof *o);
    o->not_before_off = -3600;
    o->not_after_off = 86400L * 365;
    o->eku = VPKI_EKU_NONE;
}

static char *bio_to_str(BIO *b)
{
    char *p; long n = BIO_get_mem_data(b, &p);
    char *s = malloc((size_t)n + 1); memcpy(s, p, (size_t)n); s[n] = 0;
    return s;
}

static void add_ext(X509 *cert, X509 *issuer, int nid, const char *value)
{
    X509V3_CTX ctx;
    X509V3_set_ctx_nodb(&ctx);
    X509V3_set_ctx(&ctx, issuer, cert, NULL, NULL, 0);
    X509_EXTENSION *ex = X509V3_EXT_conf_nid(NULL, &ctx, nid, value);
    if (!ex) { fprintf(stderr, "vpki: cannot create extension %d '%s'\n", nid, value); abort(); }
    X509_add_ext(cert, ex, -1);
    X509_EXTENSION_free(ex);
}

struct vpki_ent *vpki_make(const char *cn, struct vpki_ent *issuer, const struct vpki_opts *o)
{
    struct vpki_opts dflt;
    if (!o) { vpki_opts_default(&dflt); o = &dflt; }
    struct vpki_ent *e = calloc(1, sizeof *e);
    snprintf(e->name, sizeof e->name, "%s", cn);
    e->issuer = issuer; e->is_ca = o->is_ca; e->eku = o->eku;
    e->not_before_off = o->not_before_off; e->not_after_off = o->not_after_off;
    e->key = o->rsa_key ? EVP_RSA_gen(2048) : EVP_EC_gen("P-256");
    if (!e->key) abort();
    X509 *x = X509_new();
    X509_set_version(x, 2);
    e->serial = next_serial++;
    ASN1_INTEGER_set(X509_get_serialNumber(x), e->serial);
    time_t now = time(NULL);
    ASN1_TIME_set(X509_getm_notBefore(x), now + o->not_before_off);
    ASN1_TIME_set(X509_getm_notAfter(x), now + o->not_after_off);
    X509_NAME *nm = X509_NAME_new();
    X509_NAME_add_entry_by_txt(nm, "O", MBSTRING_ASC, (const unsigned char *)"verif", -1, -1, 0);
    for (int i = 0; i < o->subject_extra_ous; i++) { char ou[64]; memset(ou, 'a' + i % 26, 60); ou[60] = 0; X509_NAME_add_entry_by_txt(nm, "OU", MBSTRING_ASC, (const unsigned char *)ou, -1, -1, 0); }
    X509_NAME_add_entry_by_txt(nm, "CN", MBSTRING_ASC, (const unsigned char *)cn, -1, -1, 0);
    X509_set_subject_name(x, nm);
    X509_set_issuer_name(x, issuer ? X509_get_subject_name(issuer->x) : nm);
    X509_NAME_free(nm);
    X509_set_pubkey(x, e->key);
    X509 *ix = issuer ? issuer->x : x;
    add_ext(x, ix, NID_basic_constraints, o->is_ca ? "critical,CA:TRUE" : "CA:FALSE");
    if (o->is_ca) add_ext(x, ix, NID_key_usage, "critical,keyCertSign,cRLSign");
    else add_ext(x, ix, NID_key_usage, "critical,digitalSignature,keyAgreement");
    if (o->ski_len > 0) {
        ASN1_OCTET_STRING *os = ASN1_OCTET_STRING_new(); unsigned char *kb = malloc((size_t)o->ski_len);
        for (int i = 0; i < o->ski_len; i++) kb[i] = (unsigned char)(i * 7 + 1);
        ASN1_OCTET_STRING_set(os, kb, o->ski_len); X509_add1_ext_i2d(x, NID_subject_key_identifier, os, 0, X509V3_ADD_REPLACE);
        ASN1_OCTET_STRING_free(os); free(kb);
    } else if (!o->no_ski) add_ext(x, ix, NID_subject_key_identifier, "hash");
    if (issuer && !issuer->x) abort();
    if (issuer) add_ext(x, ix, NID_authority_key_identifier, "keyid:always");
    switch (o->eku) {
    case VPKI_EKU_SERVER: add_ext(x, ix, NID_ext_key_usage, "serverAuth"); break;
    case VPKI_EKU_CLIENT: add_ext(x, ix, NID_ext_key_usage, "clientAuth"); break;
    case VPKI_EKU_BOTH: add_ext(x, ix, NID_ext_key_usage, "serverAuth,clientAuth"); break;
    default: break;
    }
    if (o->n_san_dns + o->n_san_email + o->n_san_dir_cn > 0) {
        GENERAL_NAMES *gens = sk_GENERAL_NAME_new_null();
        for (int i = 0; i < o->n_san_dns; i++) {
            GENERAL_NAME *g = GENERAL_NAME_new(); ASN1_IA5STRING *s = ASN1_IA5STRING_new();
            ASN1_STRING_set(s, o->san_dns[i], -1); GENERAL_NAME_set0_value(g, GEN_DNS, s); sk_GENERAL_NAME_push(gens, g);
        }
        for (int i = 0; i < o->n_san_email; i++) {
            GENERAL_NAME *g = GENERAL_NAME_new(); ASN1_IA5STRING *s = ASN1_IA5STRING_new();
            ASN1_STRING_set(s, o->san_email[i], -1); GENERAL_NAME_set0_value(g, GEN_EMAIL, s); sk_GENERAL_NAME_push(gens, g);
        }
        for (int i = 0; i < o->n_san_dir_cn; i++) {
            GENERAL_NAME *g = GENERAL_NAME_new(); X509_NAME *dn = X509_NAME_new();
            X509_NAME_add_entry_by_txt(dn, "CN", MBSTRING_ASC, (const unsigned char *)o->san_dir_cn[i], -1, -1, 0);
            GENERAL_NAME_set0_value(g, GEN_DIRNAME, dn); sk_GENERAL_NAME_push(gens, g);
        }
        X509_add1_ext_i2d(x, NID_subject_alt_name, gens, 0, X509V3_ADD_DEFAULT);
        sk_GENERAL_NAME_pop_free(gens, GENERAL_NAME_free);
    }
    if (!X509_sign(x, issuer ? issuer->key : e->key, EVP_sha256())) abort();
    e->x = x;
    const ASN1_OCTET_STRING *ski = X509_get0_subject_key_id(x);
    if (ski && ASN1_STRING_length(ski) == 20) memcpy(e->ski, ASN1_STRING_get0_data(ski), 20);
    BIO *b = BIO_new(BIO_s_mem()); PEM_write_bio_X509(b, x); e->cert_pem = bio_to_str(b); BIO_free(b);
    b = BIO_new(BIO_s_mem()); PEM_write_bio_PrivateKey(b, e->key, NULL, NULL, 0, NULL, NULL); e->key_pem = bio_to_str(b); BIO_free(b);
    return e;
}

void vpki_free(struct vpki_ent *e)
{
    if (!e) return;
    X509_free(e->x); EVP_PKEY_free(e->key); free(e->cert_pem); free(e->key_pem); free(e);
}

char *vpki_make_crl(struct vpki_ent *issuer, struct vpki_ent *const *revoked, int n_revoked,
                    long last_update_off, long next_update_off)
{
    X509_CRL *crl = X509_CRL_new();
    X509_CRL_set_version(crl, 1);
    X509_CRL_set_issuer_name(crl, X509_get_subject_name(issuer->x));
    time_t now = time(NULL);
    ASN1_TIME *t = ASN1_TIME_new();
    ASN1_TIME_set(t, now + last_update_off); X509_CRL_set1_lastUpdate(crl, t);
    ASN1_TIME_set(t, now + next_update_off); X509_CRL_set1_nextUpdate(crl, t);
    for (int i = 0; i < n_revoked; i++) {
        X509_REVOKED *r = X509_REVOKED_new();
        X509_REVOKED_set_serialNumber(r, X509_get_serialNumber(revoked[i]->x));
        ASN1_TIME_set(t, now - 1800); X509_REVOKED_set_revocationDate(r, t);
        X509_CRL_add0_revoked(crl, r);
    }
    ASN1_TIME_free(t);
    X509_CRL_sort(crl);
    if (!X509_CRL_sign(crl, issuer->key, EVP_sha256())) abort();
    BIO *b = BIO_new(BIO_s_mem()); PEM_write_bio_X509_CRL(b, crl); char *s = bio_to_str(b); BIO_free(b);
    X509_CRL_free(crl);
    return s;
}

char *vpki_concat(const char *a, const char *b)
{
    size_t la = a ? strlen(a) : 0, lb = b ? strlen(b) : 0;
    char *s = malloc(la + lb + 1);
    if (a) memcpy(s, a, la);
    if (b) memcpy(s + la, b, lb);
    s[la + lb] = 0;
    return s;
}

char *vpki_chain_pem(const struct vpki_ent *leaf, bool include_intermediates)
{
    char *s = strdup(leaf->cert_pem);
    if (include_intermediates)
        for (const struct vpki_ent *i = leaf->issuer; i && i->issuer; i = i->issuer) {
            char *n = vpki_concat(s, i->cert_pem); free(s); s = n;
        }
    return s;
}

int vpki_write_file(const char *path, const char *data)
{
    FILE *f = fopen(path, "w");
    if (!f) return -1;
    fputs(data, f);
    return fclose(f);
}

int vpki_write_dir(const char *dir, const char *cert_pem, const char *key_pem, const char *tc_pem, const char *crl_pem)
{
    char p[600];
    mkdir(dir, 0700);
    snprintf(p, sizeof p, "%s/cert.pem", dir); if (vpki_write_file(p, cert_pem)) return -1;
    snprintf(p, sizeof p, "%s/key.pem", dir); if (vpki_write_file(p, key_pem)) return -1;
    if (tc_pem) { snprintf(p, sizeof p, "%s/tc.pem", dir); if (vpki_write_file(p, tc_pem)) return -1; }
    if (crl_pem) { snprintf(p, sizeof p, "%s/crl.pem", dir); if (vpki_write_file(p, crl_pem)) return -1; }
    return 0;
}
