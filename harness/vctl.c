#include "vctl.h"
#include "vshim.h"

#include <dirent.h>
#include <errno.h>
#include <stdio.h>
#include <string.h>
#include <sys/socket.h>
#include <sys/un.h>
#include <unistd.h>

int vctl_connect_path(const char *path)
{
    int fd = socket(AF_UNIX, SOCK_SEQPACKET | SOCK_NONBLOCK, 0);
    if (fd < 0) return -1;
    struct sockaddr_un a = { .sun_family = AF_UNIX };
    snprintf(a.sun_path, sizeof a.sun_path, "%s", path);
    if (connect(fd, (struct sockaddr *)&a, sizeof a) < 0) { close(fd); return -1; }
    vs_mark_harness_fd(fd);
    return fd;
}

int vctl_connect_all(const char *ctl_dir, int *fds, char names[][128], int max)
{
    int n = 0;
    DIR *d = opendir(ctl_dir);
    if (!d) return 0;
    struct dirent *de;
    while ((de = readdir(d)) && n < max) {
        if (strncmp(de->d_name, "ctl-", 4)) continue;
        char p[600]; snprintf(p, sizeof p, "%s/%s", ctl_dir, de->d_name);
        int fd = vctl_connect_path(p);
        if (fd < 0) continue;
        if (names) snprintf(names[n], 128, "%s", de->d_name);
        fds[n++] = fd;
    }
    closedir(d);
    return n;
}

int vctl_send_get(int fd, const char *attr_name)
{
    struct ctl_proto_msg m; memset(&m, 0, sizeof m);
    m.type = ctl_proto_type_get_attr_req;
    snprintf(m.get_attr_req.attr_name, sizeof m.get_attr_req.attr_name, "%s", attr_name);
    return (int)send(fd, &m, sizeof m, MSG_NOSIGNAL | MSG_DONTWAIT);
}

int vctl_send_get_all(int fd)
{
    struct ctl_proto_msg m; memset(&m, 0, sizeof m);
    m.type = ctl_proto_type_get_all_attr_req;
    return (int)send(fd, &m, sizeof m, MSG_NOSIGNAL | MSG_DONTWAIT);
}

int vctl_send_raw(int fd, const void *buf, size_t len) { return (int)send(fd, buf, len, MSG_NOSIGNAL | MSG_DONTWAIT); }

long vctl_recv(int fd, struct ctl_proto_msg *msg)
{
    ssize_t n = recv(fd, msg, sizeof *msg, MSG_DONTWAIT);
    if (n > 0) return (long)n;
    if (n < 0 && (errno == EAGAIN || errno == EWOULDBLOCK)) return 0;
    return -1;
}
