/* vnet.h - loopback topology helpers: addresses that accept, refuse or do not answer */
#ifndef VNET_H
#define VNET_H
#include <stdbool.h>

struct vnet_noanswer { int lfd; int cfd[4]; int ncfd; };

/* a port that is currently free on all the given textual addresses (IPv4 dotted or IPv6 text) */
int vnet_pick_port(const char *const *ips, int n);
/* listener with a full accept queue: further SYNs are dropped (the connecting side sees no answer) */
int vnet_noanswer_open(struct vnet_noanswer *na, const char *ip, int port);
/* drain the queue so that a retransmitted SYN is answered (about one second later) */
void vnet_noanswer_release(struct vnet_noanswer *na);
void vnet_noanswer_close(struct vnet_noanswer *na);
/* an address that refuses and keeps refusing: a socket bound to it without SO_REUSEADDR and never listening.  Nobody else - another
 * worker's listener on a shared loopback address, the kernel choosing the source port of an outgoing connection (TCP self-connect) -
 * can put a TCP endpoint there while it is held.  Returns the descriptor, -1 if the address is taken. */
int vnet_guard(const char *ip, int port);
/* plain raw listener (accepting), returns fd */
int vnet_listen(const char *ip, int port, int backlog);
int vnet_is_v6(const char *ip);
/* accept on lfd the connection whose other end is the local descriptor local_fd (same process); connections from anybody else are
 * closed and counted in *strays.  local_fd < 0: the first connection is taken.  Returns the descriptor or -1 after timeout_ms. */
int vnet_accept_peer(int lfd, int local_fd, int timeout_ms, int *strays);

#endif
