#include "vnet.h"
#include "vshim.h"

#include <arpa/inet.h>
#include <errno.h>
#include <fcntl.h>
#include <netinet/in.h>
#include <poll.h>
#include <string.h>
#include <sys/socket.h>
#include <time.h>
#include <unistd.h>

int vnet_is_v6(const char *ip) { return strchr(ip, ':') != NULL; }

static socklen_t mk_sa(const char *ip, int port, struct sockaddr_storage *ss)
{
    memset(ss, 0, sizeof *ss);
    if (vnet_is_v6(ip)) {
        struct sockaddr_in6 *a = (void *)ss; a->sin6_family = AF_INET6; a->sin6_port = htons((unsigned short)port);
        inet_pton(AF_INET6, ip, &a->sin6_addr); return sizeof *a;
    }
    struct sockaddr_in *a = (void *)ss; a->sin_family = AF_INET; a->sin_port = htons((unsigned short)port);
    inet_pton(AF_INET, ip, &a->sin_addr); return sizeof *a;
}

static int try_bind(const char *ip, int port, int *port_out)
{
    struct sockaddr_storage ss; socklen_t l = mk_sa(ip, port, &ss);
    int fd = socket(ss.ss_family, SOCK_STREAM, 0);
    if (fd < 0) return -1;
    int one = 1; setsockopt(fd, SOL_SOCKET, SO_REUSEADDR, &one, sizeof one);
    if (ss.ss_family == AF_INET6) setsockopt(fd, IPPROTO_IPV6, IPV6_V6ONLY, &one, sizeof one);
    if (bind(fd, (struct sockaddr *)&ss, l) < 0) { close(fd); return -1; }
    if (port_out) {
        struct sockaddr_storage o; socklen_t ol = sizeof o; getsockname(fd, (struct sockaddr *)&o, &ol);
        *port_out = ntohs(o.ss_family == AF_INET ? ((struct sockaddr_in *)&o)->sin_port : ((struct sockaddr_in6 *)&o)->sin6_port);
    }
    return fd;
}

int vnet_pick_port(const char *const *ips, int n)
{
    for (int attempt = 0; attempt < 50; attempt++) {
        int port = 0;
        int fd0 = try_bind(ips[0], 0, &port);
        if (fd0 < 0) return -1;
        bool ok = true;
        for (int i = 1; i < n && ok; i++) {
            if (!strcmp(ips[i], ips[0])) continue;
            int fd = try_bind(ips[i], port, NULL);
            if (fd < 0) ok = false; else close(fd);
        }
        close(fd0);
        if (ok) return port;
    }
    return -1;
}

int vnet_guard(const char *ip, int port)
{
    struct sockaddr_storage ss; socklen_t l = mk_sa(ip, port, &ss);
    int fd = socket(ss.ss_family, SOCK_STREAM, 0);
    if (fd < 0) return -1;
    int one = 1;
    if (ss.ss_family == AF_INET6) setsockopt(fd, IPPROTO_IPV6, IPV6_V6ONLY, &one, sizeof one);
    if (bind(fd, (struct sockaddr *)&ss, l) < 0) { close(fd); return -1; }      /* no SO_REUSEADDR: nobody else can bind here while we hold it */
    vs_mark_harness_fd(fd);
    return fd;
}

int vnet_listen(const char *ip, int port, int backlog)
{
    int fd = try_bind(ip, port, NULL);
    if (fd < 0) return -1;
    if (listen(fd, backlog) < 0) { close(fd); return -1; }
    vs_mark_harness_fd(fd);
    return fd;
}

int vnet_noanswer_open(struct vnet_noanswer *na, const char *ip, int port)
{
    memset(na, 0, sizeof *na);
    na->lfd = vnet_listen(ip, port, 0);
    if (na->lfd < 0) return -1;
    struct sockaddr_storage ss; socklen_t l = mk_sa(ip, port, &ss);
    /* backlog 0 holds one established connection; fill it and leave two more knocking */
    for (int i = 0; i < 3; i++) {
        int c = socket(ss.ss_family, SOCK_STREAM | SOCK_NONBLOCK, 0);
        if (c < 0) break;
        connect(c, (struct sockaddr *)&ss, l);
        vs_mark_harness_fd(c);
        na->cfd[na->ncfd++] = c;
        struct pollfd p = { .fd = c, .events = POLLOUT }; poll(&p, 1, i == 0 ? 50 : 5);
    }
    return 0;
}

void vnet_noanswer_release(struct vnet_noanswer *na)
{
    fcntl(na->lfd, F_SETFL, fcntl(na->lfd, F_GETFL, 0) | O_NONBLOCK);     /* never wait for a connection that is not queued */
    for (int i = 0; i < 4; i++) {
        int fd = accept4(na->lfd, NULL, NULL, SOCK_NONBLOCK);
        if (fd < 0) break;
        close(fd);
    }
}

void vnet_noanswer_close(struct vnet_noanswer *na)
{
    for (int i = 0; i < na->ncfd; i++) close(na->cfd[i]);
    if (na->lfd >= 0) close(na->lfd);
    na->ncfd = 0; na->lfd = -1;
}

static int sa_port(const struct sockaddr_storage *o)
{ return ntohs(o->ss_family == AF_INET ? ((const struct sockaddr_in *)o)->sin_port : ((const struct sockaddr_in6 *)o)->sin6_port); }

int vnet_accept_peer(int lfd, int local_fd, int timeout_ms, int *strays)
{
    struct timespec t0; clock_gettime(CLOCK_MONOTONIC, &t0);
    for (;;) {
        struct timespec t1; clock_gettime(CLOCK_MONOTONIC, &t1);
        long el = (t1.tv_sec - t0.tv_sec) * 1000 + (t1.tv_nsec - t0.tv_nsec) / 1000000;
        if (el >= timeout_ms) return -1;
        struct pollfd p = { .fd = lfd, .events = POLLIN };
        if (vs_real_poll(&p, 1, (int)(timeout_ms - el) > 50 ? 50 : (int)(timeout_ms - el)) <= 0) continue;
        int fd = accept(lfd, NULL, NULL);
        if (fd < 0) continue;
        if (local_fd >= 0) {
            struct sockaddr_storage pa, la; socklen_t pl = sizeof pa, ll = sizeof la;
            if (getpeername(fd, (struct sockaddr *)&pa, &pl) == 0 && getsockname(local_fd, (struct sockaddr *)&la, &ll) == 0 && sa_port(&pa) != sa_port(&la)) {
                if (strays) (*strays)++;
                close(fd); continue;
            }
        }
        return fd;
    }
}
