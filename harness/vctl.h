/* vctl.h - raw client of the XCM control interface (AF_UNIX SOCK_SEQPACKET, common/ctl_proto.h) */
#ifndef VCTL_H
#define VCTL_H
#include <stddef.h>
#include "ctl_proto.h"

/* connect to every control socket found in ctl_dir (files named ctl-<pid>-<id>); fills fds[], returns the number connected */
int vctl_connect_all(const char *ctl_dir, int *fds, char names[][128], int max);
int vctl_connect_path(const char *path);
int vctl_send_get(int fd, const char *attr_name);
int vctl_send_get_all(int fd);
int vctl_send_raw(int fd, const void *buf, size_t len);
/* non-blocking receive of one message; returns its size, 0 if nothing is there, -1 on close/error */
long vctl_recv(int fd, struct ctl_proto_msg *msg);
#endif
