# registry of checks: id -> description used by vcheck
CHECKS = {}
NOT_CLAIMED = {}
HOOK_COMMITS = []

def reg(pid, **kw):
    kw.setdefault("exe", "h_" + pid.lower())
    kw.setdefault("level", "exploration")
    kw.setdefault("assumptions", [])
    CHECKS[pid] = kw

COMMON = ["vcommon.c"]

reg("C12",
    title="address strings: make/parse exact inverses with honest bounds",
    technique="differential testing of xcm_addr_make_*/parse_* against a reference codec under ASan+UBSan (exhaustive over ports, generated hosts/capacities/mutants)",
    level_text="All 65536 ports x 6 host:port transports x 6 host kinds x boundary capacities are compared with an independent reference codec on exact-size heap buffers under ASan/UBSan; parsers are sandwiched between a must-accept set (canonical strings, with round trip) and a must-reject set (documented exclusions) and must agree with xcm_addr_is_valid on ~10^6 generated strings. Exhaustive in the port dimension, sampled in hosts and strings.",
    level_note="Trusts inet_ntop for IPv6 text and ASan's red zones for out-of-bounds writes; strings in neither the must-accept nor the must-reject set are only required to terminate cleanly.",
    harness=COMMON + ["c12.c"],
    stages=[dict(variant="asan", cases={"quick": 65536, "thorough": 400000},
                 timeout={"quick": 600, "thorough": 3000})],
    floors={"quick": {"ports_swept": 65536, "make_too_small": 100000, "parse_must_reject": 100000,
                      "parse_canonical": 100000, "distinct_nontrivial": 100},
            "thorough": {"ports_swept": 65536, "make_too_small": 1000000, "parse_must_reject": 1000000,
                         "distinct_nontrivial": 100}},
    rule="one evaluation = one port value (the first 65536 evaluations sweep all ports) run through all 6 "
         "host:port transports x 6 host kinds x capacities {len+1,len,len-1,...} against the reference codec, "
         "plus one UX/UXF name length, must-reject mutants and arbitrary parser inputs; a signature is "
         "(api, transport, host kind, capacity-minus-length class) or a must-reject class; all are non-trivial",
    assumptions=["inet_ntop is trusted for the textual form of IPv6 addresses",
                 "must-reject set is limited to what the documentation excludes (port syntax/range, empty host, "
                 "length limits, whitespace, wrong prefix); other strings only need to terminate cleanly and agree with xcm_addr_is_valid"])

reg("C19",
    title="attribute maps are finite maps; attribute paths are canonical",
    technique="model-based random testing: operation histories on xcm_attr_map checked against a reference finite map; attr_path parse/print round trips; ASan+UBSan",
    level_text="Random operation histories (add in 5 types, del, lookup, clone, add_all, equal, size, foreach, aliasing adds) over pools of maps are compared after every step with an executable finite-map model; generated attribute paths are round-tripped and a must-reject set is enforced, all under ASan+UBSan with caller buffers scribbled and freed after each call.",
    level_note="Sampled histories, not all; internal attr_path_* entry points are called directly because the library is built without its version script.",
    harness=COMMON + ["c19.c"],
    stages=[dict(variant="asan", cases={"quick": 64, "thorough": 1600},
                 timeout={"quick": 600, "thorough": 3000})],
    floors={"quick": {"map_ops": 50000, "paths_valid": 20000, "alias_same_name": 50, "clone_survives_destroy": 50,
                      "zero_length_bin": 100, "large_bin": 20, "paths_over_64_comps": 100, "distinct_nontrivial": 10},
            "thorough": {"map_ops": 4000000, "paths_valid": 2000000, "distinct_nontrivial": 10}},
    rule="one evaluation = one random history of map operations over a pool of 5 maps (key sets of 3, 12 or 200 names) "
         "checked against an array-based reference map, followed by a batch of generated attribute paths; "
         "signatures are (key-set size, history length) and path classes",
    assumptions=["internal attr_path_* functions are called directly (library built without its version script)"])
