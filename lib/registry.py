# registry of checks: id -> description used by vcheck
CHECKS = {}
NOT_CLAIMED = {}
HOOK_COMMITS = []

def reg(pid, **kw):
    kw.setdefault("exe", "h_" + pid.lower())
    kw.setdefault("level", "exploration")
    kw.setdefault("assumptions", [])
    CHECKS[pid] = kw

COMMON = ["vcommon.c"]

reg("C12",
    title="address strings: make/parse exact inverses with honest bounds",
    technique="differential testing of xcm_addr_make_*/parse_* against a reference codec under ASan+UBSan (exhaustive over ports, generated hosts/capacities/mutants)",
    level_text="All 65536 ports x 6 host:port transports x 6 host kinds x boundary capacities are compared with an independent reference codec on exact-size heap buffers under ASan/UBSan; parsers are sandwiched between a must-accept set (canonical strings, with round trip) and a must-reject set (documented exclusions) and must agree with xcm_addr_is_valid on ~10^6 generated strings. Exhaustive in the port dimension, sampled in hosts and strings.",
    level_note="Trusts inet_ntop for IPv6 text and ASan's red zones for out-of-bounds writes; strings in neither the must-accept nor the must-reject set are only required to terminate cleanly.",
    harness=COMMON + ["c12.c"],
    stages=[dict(variant="asan", cases={"quick": 65536, "thorough": 400000},
                 timeout={"quick": 600, "thorough": 3000})],
    floors={"quick": {"ports_swept": 65536, "make_too_small": 100000, "parse_must_reject": 100000,
                      "parse_canonical": 100000, "distinct_nontrivial": 100},
            "thorough": {"ports_swept": 65536, "make_too_small": 1000000, "parse_must_reject": 1000000,
                         "distinct_nontrivial": 100}},
    rule="one evaluation = one port value (the first 65536 evaluations sweep all ports) run through all 6 "
         "host:port transports x 6 host kinds x capacities {len+1,len,len-1,...} against the reference codec, "
         "plus one UX/UXF name length, must-reject mutants and arbitrary parser inputs; a signature is "
         "(api, transport, host kind, capacity-minus-length class) or a must-reject class; all are non-trivial",
    assumptions=["inet_ntop is trusted for the textual form of IPv6 addresses",
                 "must-reject set is limited to what the documentation excludes (port syntax/range, empty host, "
                 "length limits, whitespace, wrong prefix); other strings only need to terminate cleanly and agree with xcm_addr_is_valid"])

reg("C19",
    title="attribute maps are finite maps; attribute paths are canonical",
    technique="model-based random testing: operation histories on xcm_attr_map checked against a reference finite map; attr_path parse/print round trips; ASan+UBSan",
    level_text="Random operation histories (add in 5 types, del, lookup, clone, add_all, equal, size, foreach, aliasing adds) over pools of maps are compared after every step with an executable finite-map model; generated attribute paths are round-tripped and a must-reject set is enforced, all under ASan+UBSan with caller buffers scribbled and freed after each call.",
    level_note="Sampled histories, not all; internal attr_path_* entry points are called directly because the library is built without its version script.",
    harness=COMMON + ["c19.c"],
    stages=[dict(variant="asan", cases={"quick": 64, "thorough": 12800},
                 timeout={"quick": 600, "thorough": 3000})],
    floors={"quick": {"map_ops": 50000, "paths_valid": 20000, "alias_same_name": 50, "clone_survives_destroy": 50,
                      "zero_length_bin": 100, "large_bin": 20, "paths_over_64_comps": 100, "distinct_nontrivial": 10},
            "thorough": {"map_ops": 4000000, "paths_valid": 2000000, "distinct_nontrivial": 10}},
    rule="one evaluation = one random history of map operations over a pool of 5 maps (key sets of 3, 12 or 200 names) "
         "checked against an array-based reference map, followed by a batch of generated attribute paths; "
         "signatures are (key-set size, history length) and path classes",
    assumptions=["internal attr_path_* functions are called directly (library built without its version script)"])

ENGINE = COMMON + ["vshim.c", "vpki.c", "veng.c"]

reg("C01",
    title="messaging transports deliver exactly the accepted messages",
    technique="recorded send/receive histories with unique message contents checked against the sender's ledger (exactly-once, order, bytes) under shim-injected short reads/writes and EAGAIN; ASan+UBSan",
    level_text="Real connections on ux, uxf, tcp, tls and utls (UX leg, TLS leg, fallback) in non-blocking, blocking and mixed mode are driven with random interleavings of send/receive/finish/await while a link-time shim below XCM and below OpenSSL fragments and refuses reads and writes; every message has unique content and an offline oracle compares the receiver's history with the sender's ledger of accepted sends (prefix always, equality after a graceful or quiescent end). About 1 % of the receives go into a reserved 4 GiB arena with capacities around 2^31 and 2^32; the last send before a flush+close meets 2-4 forced refusals below; after a clean flush with nothing unread at the sender everything accepted is owed even if the receiver sees the end as an error. In 40 % of the blocking-sender cases a blocking poll of the sender is interrupted (EINTR) or a real signal arrives: a send reported as failed must not show up at the receiver.",
    level_note="Held on the executions produced; kernel scheduling is not controlled. Floors require header splits, frame splits and mid-frame refusals to have been observed.",
    harness=ENGINE + ["vctl.c", "traffic.c"], exe="h_traffic",
    stages=[dict(variant="asan", cases={"quick": 720, "thorough": 115200}, timeout={"quick": 900, "thorough": 3400})],
    floors={"quick": {"header_splits": 200, "frame_splits": 500, "refused_mid_frame": 100, "eintr_injected": 10, "complete_directions": 300,
                      "cases_with_truncating_receive": 50, "distinct_nontrivial": 60},
            "thorough": {"header_splits": 4000, "frame_splits": 10000, "refused_mid_frame": 2000, "complete_directions": 6000, "distinct_nontrivial": 200}},
    rule="one evaluation = one connection history (transport x mode x direction x end mode x injection plan x size/capacity class); "
         "non-trivial = at least one frame header completed over >=2 reads/writes, a frame flushed over >=2 writes, a refusal (injected or kernel EAGAIN) "
         "or a truncating receive occurred; distinct = distinct (transport, mode, bidir, end, plan, size, capacity, observed-event bits) signatures",
    assumptions=["tcp.user_timeout raised to 60 s so that scheduler stalls on a loaded machine are not mistaken for loss",
                 "capacity 0 is never passed to xcm_receive"])

reg("C02",
    title="byte-stream transports deliver exactly the accepted bytes",
    technique="recorded byte-stream histories (content keyed by send call) checked as prefix/equality against the accepted ranges under shim-injected short I/O and EAGAIN below XCM and OpenSSL; ASan+UBSan",
    level_text="btcp and btls connections in non-blocking, blocking and mixed mode; every xcm_send call carries bytes generated from its own call number, so bytes of a refused call are distinguishable from whatever is offered next (same, longer, shorter or different data); the receiver's concatenated stream is compared with the concatenation of the accepted prefixes (prefix at all times, equality after flush+graceful close or quiescence); return-value contract and capacity bound checked on exact-size heap buffers. Each run also makes single blocking xcm_send calls of more than INT_MAX bytes (2^32+4096 on btcp, 2^31+5 on btls; thorough: two more) from an all-zero reserved area and counts what arrives; receives into a 4 GiB arena; forced refusals below at the last send before flush+close; EINTR and real signals in the blocking modes.",
    level_note="Held on the executions produced. Refusals below OpenSSL after a record was sealed are produced by the shim, not by a real full socket buffer.",
    harness=ENGINE + ["vctl.c", "traffic.c"], exe="h_traffic",
    stages=[dict(variant="asan", cases={"quick": 480, "thorough": 96000}, timeout={"quick": 900, "thorough": 3400})],
    floors={"quick": {"injected_eagain": 2000, "partial_acceptance": 200, "retries_with_different_data": 300, "retries_with_same_data": 100,
                      "complete_directions": 200, "distinct_nontrivial": 40},
            "thorough": {"injected_eagain": 40000, "partial_acceptance": 4000, "retries_with_different_data": 6000, "complete_directions": 4000, "distinct_nontrivial": 100}},
    rule="one evaluation = one byte-stream connection history; non-trivial = at least one refusal or short read/write occurred; "
         "distinct = distinct (transport, mode, bidir, end, plan, size, capacity, observed-event bits) signatures",
    assumptions=["tcp.user_timeout raised to 60 s"])

reg("C03",
    title="a failed send leaves no trace; a successful one is delivered once",
    technique="send-outcome monitor: counter snapshots around every failing xcm_send, ledger of failed/accepted attempts vs. deliveries, EINTR injected at every blocking wait (shim) and by real signals; ASan+UBSan",
    level_text="Every xcm_send outcome on every transport and mode is recorded; sends that fail with EAGAIN/EMSGSIZE/EINVAL/EINTR must leave all counters except to_lower unchanged, must never be delivered, and the application model re-sends them (same or different data) so that a hidden acceptance shows up as a duplicate. Sizes 0, max+1, 1 MiB and 2^31+5 are mixed in. EINTR is injected at the n-th blocking poll of a back-pressured blocking sender (n swept over cases) and by real SIGUSR1. In 60 % of the blocking-sender cases the control interface is on: a raw control client connects while the sender waits and the first accept4 inside the sender's calls fails with EMFILE (a swallowed control failure must not surface as a failed send). Send sizes include 2^32, 2^32+100 and SIZE_MAX.",
    level_note="Held on the executions produced; fault_enumeration over the index of the interrupted wait is sampled per case, not exhaustive.",
    harness=ENGINE + ["vctl.c", "traffic.c"], exe="h_traffic",
    stages=[dict(variant="asan", cases={"quick": 660, "thorough": 39600}, timeout={"quick": 900, "thorough": 3400})],
    floors={"quick": {"refusal_counter_snapshots": 3000, "send_oversized": 500, "send_zero_len": 200, "eintr_injected": 30,
                      "send_refused_eagain": 3000, "complete_directions": 250, "distinct_nontrivial": 60},
            "thorough": {"refusal_counter_snapshots": 60000, "eintr_injected": 600, "complete_directions": 5000, "distinct_nontrivial": 150}},
    rule="one evaluation = one connection history with odd-size sends mixed in; non-trivial = at least one xcm_send was refused (EAGAIN) or interrupted (EINTR); "
         "distinct = distinct (transport, mode, plan, sizes, observed-event bits incl. EINTR fired) signatures",
    assumptions=["tcp.user_timeout raised to 60 s"])

reg("C17",
    title="traffic counters tell the truth",
    technique="counter monitor: all xcm.*_msgs/_bytes attributes read after every engine step on both ends and compared with the harness ledgers (monotone, app-side equality, ordering, quiescent agreement); ASan+UBSan",
    level_text="After every step of a non-blocking history (partial flushes, truncating receives, refused/oversized/zero sends, closes) the 8 (4 on byte streams) counters of both ends are read through xcm_attr_get_int64 and compared with what the application really sent and received; at quiescence sender.to_lower, receiver.from_lower and the ledger must agree, on every transport.",
    level_note="Counters are only read from the scheduler thread (non-blocking cases) and at the end of threaded cases.",
    harness=ENGINE + ["vctl.c", "traffic.c"], exe="h_traffic",
    stages=[dict(variant="asan", cases={"quick": 660, "thorough": 13200}, timeout={"quick": 900, "thorough": 3400})],
    floors={"quick": {"counter_reads": 50000, "quiescent_counter_checks": 100, "cases_with_truncating_receive": 40, "distinct_nontrivial": 60, "connections_beyond_2G": 1},
            "thorough": {"counter_reads": 1000000, "quiescent_counter_checks": 2000, "distinct_nontrivial": 150, "connections_beyond_2G": 2}},
    rule="one evaluation = one connection history with the counter monitor sampling after every step; non-trivial = a refusal, split frame or truncating receive occurred; "
         "distinct = distinct (transport, mode, plan, sizes, observed-event bits) signatures",
    assumptions=["sends that fail with a connection errno may already be counted in from_app (accepted, then the flush failed): slack of one message there"])

EVLOOP = ENGINE + ["vdns.c", "vnet.c", "vctl.c", "evloop.c"]

reg("C04",
    title="event-loop contract is live (bounded form): no lost wake-ups, blocking calls return",
    technique="executable reactor following the documented await/poll/act protocol; logical-deadlock oracle (no xcm fd readable, no XCM timer armed, resolver idle, goals still open for 500 ms) over ledgers and kernel queue state; blocking calls in threads under a watchdog; shim-injected EAGAIN/short I/O; stub resolver and no-answer/refusing candidates for the resolving and connecting phases; ASan+UBSan",
    level_text="Agents act only when poll() reports their xcm fd readable (plus the one speculative attempt the documentation allows). Whenever nothing is readable the monitor evaluates the goals from ground truth (ledgers of accepted sends, counters from_app/to_lower, peer closes): if goals are open while no XCM timerfd is armed and the stub resolver has nothing scheduled for 500 ms, nothing can wake the system again and a lost wake-up is reported with per-endpoint kernel queue state. Unbounded eventuality is not decided; this is the bounded restatement of DESIGN.md section 3/C04. Blocking connect/accept/send/receive/close run in threads with a 40 s watchdog. 40 % of the completed reactor cases add a real back-pressure probe: the peer stops reading until sends are refused and the descriptor has been quiet for 300 ms; input from the peer must then wake an endpoint awaiting SENDABLE|RECEIVABLE and RECEIVABLE, be delivered, and - on TLS transports - a second piece already read ahead by OpenSSL must keep the descriptor readable after a refused send. An answered resolver followed by a second of silence with only a timer armed is a lost wake-up.",
    level_note="Held on the executions produced. Phases covered: resolving (stub: synchronous, after n process calls, after t ms), TCP connecting (accepting, first candidate refusing or not answering with tcp.connect_timeout, happy eyeballs), TLS handshake under injected refusals, ready, peer close.",
    harness=EVLOOP, exe="h_evloop",
    stages=[dict(variant="asan", cases={"quick": 550, "thorough": 33000}, timeout={"quick": 900, "thorough": 3400})],
    floors={"quick": {"reactor_completed": 300, "close_phase_completed": 250, "wakeups": 20000, "waits_for_xcm_timer_or_resolver": 500,
                      "blocking_scenarios_completed": 30, "injected_faults_below": 5000, "distinct_nontrivial": 80},
            "thorough": {"reactor_completed": 6000, "close_phase_completed": 5000, "blocking_scenarios_completed": 600, "distinct_nontrivial": 200}},
    rule="one evaluation = one client/server scenario driven by the reactor (transport x traffic shape x injection plan x resolver delivery x candidate topology x condition policy) or one blocking-thread scenario; "
         "non-trivial = the reactor completed with at least 3 wake-ups taken; distinct = distinct parameter signatures",
    assumptions=["loopback delivers within 500 ms when nothing else is pending (delayed ACK 40 ms, Nagle disabled by XCM)",
                 "attribute reads used by the monitor (counters) are passive"])

reg("C16",
    title="readiness is sound: one stable descriptor that is quiet when idle",
    technique="readiness probes at engine-confirmed quiescent points of reactor-driven histories: poll(xcm_fd, POLLIN|POLLOUT|POLLPRI, 0) sampled for each awaited condition, descriptor identity tracked through the shim's ledger; ASan+UBSan",
    level_text="After a reactor-driven history (all transports, partial I/O plans) has delivered everything and xcm_finish succeeded on both ends, each endpoint is probed: condition 0 and RECEIVABLE-after-EAGAIN must stay unreadable over several samples, SENDABLE and R|S must be readable on the immediately following poll, data waiting in the kernel buffer or already decrypted inside the TLS layer must make RECEIVABLE readable at once, the server socket must be quiet with an empty queue; every poll must report nothing but POLLIN; xcm_fd must return the creation-time number and the shim must still show it as the epoll instance XCM created. 30 % of the cases run with the control interface on: at the quiescent point two control clients per socket attach, one or two more queue, all leave in a random order; some of the attached clients also speak (requests whose answers stay unread, requests of a type the library does not know, runts); once the owner has served them every socket must be quiet again. In 15 % of the cases one end is then write-blocked by real back-pressure and input from the peer must still make the descriptor readable (the converse clause).",
    level_note="One spurious wake-up that a following EAGAIN receive silences is tolerated (TLS: ssl_condition==0 after a write, TLS 1.3 tickets), persistence is flagged.",
    harness=EVLOOP, exe="h_evloop",
    stages=[dict(variant="asan", cases={"quick": 550, "thorough": 44000}, timeout={"quick": 900, "thorough": 3400})],
    floors={"quick": {"quiescent_pairs_probed": 250, "probe_cond0": 500, "probe_receivable_idle": 500, "probe_sendable_met": 900,
                      "probe_receivable_met_kernel": 500, "probe_receivable_met_inside_tls": 100, "probe_server_idle": 250, "fd_identity_checks": 1000, "control_client_requests:unknown-type": 40, "backpressure_probes_completed": 12, "distinct_nontrivial": 80},
            "thorough": {"quiescent_pairs_probed": 5000, "probe_receivable_met_inside_tls": 2000, "distinct_nontrivial": 200}},
    rule="one evaluation = one reactor-driven history ending in a quiescent pair which is then probed (both connection ends and the server socket); "
         "non-trivial = the history completed with at least 3 wake-ups; distinct = distinct parameter signatures",
    assumptions=["quiescence is established by the engine: ledgers equal, from_app == to_lower, xcm_finish == 0 on both ends"])

STATES = ENGINE + ["vdns.c", "vnet.c", "vstate.c", "vctl.c"]

reg("C10",
    title="attribute reads and writes are memory-safe and type-checked",
    technique="exhaustive capacity sweep of every getter on exact-size heap buffers under ASan+UBSan, reference snapshot (xcm_attr_get_all) as value oracle, before/after snapshots as side-effect oracle for every rejected xcm_attr_set, hostile name generator; sockets held in every phase",
    level_text="For every transport and every phase a socket can be held in (fresh server, established, peer closed seen/unseen, failed, back-pressured, TCP connecting to a no-answer address, resolving with a silent stub resolver, TLS handshaking with a silent raw peer) every attribute that xcm_attr_get_all enumerates is read through xcm_attr_get/getf and all typed getters with destination buffers that are heap blocks of exactly `capacity` bytes for every capacity 0..len+2 (ASan red zone at the first byte beyond), and written through xcm_attr_set with every wrong type, wrong lengths and a table of admissible and inadmissible values; rejected sets must leave the full attribute snapshot unchanged, accepted ones must read back. Generated hostile names (10 kB, >64 components, unbalanced brackets, huge indices, non-ASCII) go through get, set and list_len. A third of the cases run with the console log enabled so the value-formatting code runs on the same buffers.",
    level_note="ASan red zones detect writes beyond capacity only up to the red-zone size; intra-capacity garbage is not policed. Out-of-enum type values are not passed (API precondition).",
    harness=STATES + ["c10.c"],
    stages=[dict(variant="asan", cases={"quick": 3 * 47, "thorough": 48 * 47}, timeout={"quick": 900, "thorough": 3400})],
    floors={"quick": {"attr_get_calls": 50000, "get_capacity_too_small": 20000, "typed_get_wrong_type": 20000, "attr_set_rejected": 5000, "set_side_effect_checks": 5000,
                      "attr_set_accepted": 300, "hostile_name_calls": 5000, "sockets_examined": 150, "distinct_nontrivial": 400},
            "thorough": {"attr_get_calls": 400000, "attr_set_rejected": 40000, "hostile_name_calls": 40000, "distinct_nontrivial": 400}},
    rule="one evaluation = one (transport, phase) socket set (client, accepted, server as present) whose every enumerated attribute is swept over capacities, getters, setter types/lengths/values and hostile names; "
         "distinct = distinct (transport, phase, socket role, attribute) tuples examined; all are non-trivial",
    assumptions=["tcp.rtt, tcp.total_retrans, tcp.segs_in, tcp.segs_out are compared by type and length only (volatile)",
                 "xcm.blocking is not switched to true on sockets held in a pending phase (the switch waits by contract)"])

reg("C07",
    title="hostile or corrupt wire input cannot harm or mislead the receiver",
    technique="raw TCP peer (and a btls endpoint as byte pipe inside an authenticated TLS channel) writing structure-aware generated byte strings in generated segmentations, shim-fragmented reads; reference frame decoder as delivery oracle, EPROTO stickiness probes, bounds on consumed-but-undelivered bytes and on heap growth; ASan+UBSan",
    level_text="A raw socket writes generated inputs (valid frames followed by zero/oversized length headers, truncated headers and payloads, random bytes; random bytes, forged TLS records, HTTP and mutated captures of real ClientHello/server flights towards TLS endpoints; malformed frames inside an established TLS channel via a btls endpoint) to tcp, btcp, tls and btls endpoints on client and on server side, in segmentations from one write down to single bytes, with the shim additionally splitting the reads. Every xcm_receive result is compared with a reference decoder over the bytes written (exactly the well-formed frames before the first illegal header, then EPROTO for ever from receive, send and finish; bytes identical on btcp; nothing and never established on TLS garbage); a healthy bystander TLS connection kept in the same thread must stay idle-quiet and deliver a message each way afterwards; the bytes XCM has consumed beyond what it delivered and the heap growth during the connection are bounded. A quarter of the cases run with the console log on.",
    level_note="Memory safety is what ASan/UBSan can see on the inputs generated. The heap bound is generous for TLS (OpenSSL handshake buffers).",
    harness=STATES + ["c07.c"],
    stages=[dict(variant="asan", cases={"quick": 4000, "thorough": 80000}, timeout={"quick": 900, "thorough": 3400}, leaks=False)],
    floors={"quick": {"inputs": 3500, "valid_then_malformed_inputs": 300, "malformed_header_reached": 300, "recv_header_splits": 3000, "eproto_reported": 800,
                      "terminal_probe_calls": 5000, "deliveries_checked": 50000, "tls_garbage_eproto": 400, "bystander_connections_checked": 500, "distinct_nontrivial": 600},
            "thorough": {"inputs": 60000, "valid_then_malformed_inputs": 6000, "tls_garbage_eproto": 8000, "distinct_nontrivial": 1500}},
    rule="one evaluation = one generated input written to one connection; non-trivial (framed modes) = valid frames precede a malformed header, or a frame header was completed over >=2 reads; "
         "distinct = distinct (mode, transport, side, end action, generator, segmentation, read fragmentation, how the input ends) signatures",
    assumptions=["a TCP reset by the raw peer may discard data in flight: only the prefix rule is applied then",
                 "on TLS endpoints a terminal ECONNRESET/EPIPE is accepted in place of EPROTO when the raw peer vanished"])

reg("C05",
    title="non-blocking sockets never put the calling thread to sleep",
    technique="interposition monitor on the waiting primitives (poll/ppoll/select/epoll_wait/epoll_pwait with non-zero timeout, sleeps, connect/accept/send/recv on descriptors lacking O_NONBLOCK) armed while a call on a non-blocking socket is in progress; sockets held in every phase by a silent stub resolver, a no-answer address, a silent TLS peer, back-pressure; ASan+UBSan",
    level_text="Random sequences of every public call (connect_a, accept, send, receive, finish, await, fd, attribute get/set/get_all, remote/local addr, set_blocking(false), close) are made on non-blocking sockets of all transports held in each phase: resolving (stub resolver that never answers), TCP connecting (address whose SYNs are dropped), TLS handshaking (raw peer that accepts and stays silent), back-pressured, established, peer closed (seen and unseen), failed; plus connections driven from creation to readiness through a delayed resolver answer and a first candidate that does not answer; a third of the cases run with the control interface enabled and raw control clients that pipeline requests without ever reading the replies; every TLS case ends with a creation that fails on unreadable credentials followed by a fresh connection (a call that never returns is reported by the per-case watchdog after one retry). The shim flags the waiting primitive itself, whether or not the wait happened to be satisfied at once.",
    level_note="Waits issued through non-PLT internal calls of other libraries are invisible to the link-time shim. Documented blocking exceptions (xcm_set_blocking(true), synchronous resolution in xcm_server and of a named xcm.local_addr) are not exercised.",
    harness=STATES + ["c05.c"],
    stages=[dict(variant="asan", cases={"quick": 59 * 18, "thorough": 59 * 1000}, timeout={"quick": 900, "thorough": 3400})],
    floors={"quick": {"api_calls_watched": 150000, "phases_reached": 800, "alarm_checks": 150000, "progress_cases_established": 60, "ctl_clients_not_reading": 500, "creations_after_failed_tls_creation": 300, "distinct_nontrivial": 600},
            "thorough": {"api_calls_watched": 3000000, "phases_reached": 8000, "progress_cases_established": 600, "distinct_nontrivial": 450}},
    rule="one evaluation = one (transport, phase) socket set on which a random sequence of public calls is made with the wait monitor armed, or one connection driven through resolving/connecting/handshaking by finish calls; "
         "distinct = distinct (transport, phase, API) triples in which a call was watched; all cases that reached their phase are non-trivial",
    assumptions=["only calls made through the PLT are seen (libc, c-ares entry points); OpenSSL and c-ares internals calling each other directly are not"])

reg("C06",
    title="terminal conditions are reported faithfully and stick",
    level="fault_enumeration",
    technique="fault enumeration with a terminal-state tracker: errno substituted at the n-th recv/send/SO_ERROR below XCM and OpenSSL (errno x index x first observing call), an in-process cutting proxy severing (FIN) or resetting (RST) the stream after exactly n bytes (every offset of handshake, headers, payloads), orderly closes and failing establishments; prefix oracle on deliveries; ASan+UBSan",
    level_text="Enumerated over (transport x {recv,send} x index x {ECONNRESET, ETIMEDOUT, EHOSTUNREACH, ENETUNREACH, ECONNREFUSED, EPIPE} x first observer in {send, receive, finish} x frame pending or not) for injected errnos, over byte offsets of the real wire stream (TLS handshake flights included) x {FIN, RST} x direction for peer death through a cutting proxy between two XCM endpoints, plus orderly closes on all eight transports and refused/unreachable/timed-out establishments. On every endpoint a tracker takes the first terminal report and then demands: no success ever again; 0 from receive and EPIPE from send after an observed close; on TCP-based transports the same errno from every later send, receive and finish; the call during which the injected error occurred reports it; deliveries are always a prefix of what the peer's sends accepted (no partial message). 30 % of the TLS-based fault and orderly-close cases are preceded by a TLS protocol error on another connection handled by the same thread.",
    level_note="Quick samples the product, thorough walks the offsets densely (stride 7919 mod stream length over the case index). The kernel's production of the errno is replaced by substitution at the call boundary; XCM's reaction is what is observed.",
    harness=STATES + ["c06.c"],
    stages=[dict(variant="asan", cases={"quick": 2400, "thorough": 60000}, timeout={"quick": 900, "thorough": 3400})],
    floors={"quick": {"faults_fired": 500, "cuts_made": 500, "cuts_during_establishment": 50, "cuts_after_establishment": 100, "orderly_closes_verified": 150, "connect_failures_observed": 100,
                      "terminal_probe_calls": 15000, "distinct_nontrivial": 150},
            "thorough": {"faults_fired": 15000, "cuts_made": 15000, "cuts_during_establishment": 1500, "orderly_closes_verified": 4000, "distinct_nontrivial": 120}},
    rule="one evaluation = one fault / cut / orderly-close / failing-establishment scenario; distinct = distinct (kind, transport, fault call, errno, discovering call) or (cut, transport, FIN/RST, direction, phase, terminal kinds) tuples that actually fired; a case whose injection point was not reached is counted under faults_not_reached/cut_not_reached",
    assumptions=["EPIPE met while writing is the peer's close: the terminal state is then 'closed' (receive 0, send EPIPE)",
                 "for non-orderly death any of 0/ECONNRESET/EPIPE/EPROTO is accepted as the terminal value; stickiness and consistency are demanded"])

reg("C08",
    title="no resource leaks, stray closes or aborts on any lifecycle path",
    level="fault_enumeration",
    technique="fault enumeration over the resource-creating system calls of API scenarios (counting run, then one forked run per (call, index, errno) with the call failing), real descriptor exhaustion by RLIMIT_NOFILE sweep, eventfd-pool bursts, fork + xcm_cleanup at every scenario step; monitors: /proc/self/fd diff against a baseline, LeakSanitizer at exit of every case, descriptor ledger with planted decoys (stray close/epoll_ctl/setsockopt/shutdown on descriptors XCM did not create, EBADF closes), directory listings of UXF and control paths, child death; ASan+UBSan+LSan",
    level_text="Scenarios = {server, connect, accept, one message each way, close in varying order} on ux, uxf, tcp, tls, utls, btcp, btls, in the flavours plain, DNS name (stub resolver), xcm.local_addr, TLS credentials by value, refused creation attribute (err_close branch), refused connect, address in use, control interface enabled, accept on an empty queue. A counting run lists how often each of socket, accept4, epoll_create1, eventfd, timerfd_create, connect, bind, listen, setsockopt, fopen is called; then every (scenario, call, index 1..n+1, errno) is a forked case in which that call fails. Other families: RLIMIT_NOFILE set to highest-open-descriptor+1+j for j = 0..29 (each j makes a different call the first to hit EMFILE), bursts of >300 sockets (eventfd pool), fork at step k with xcm_cleanup of every socket in the child (child: descriptor table back to baseline, no epoll_ctl/unlink/send/shutdown, LSan clean; owner: traffic continues, files remain). After each case, with everything closed: descriptor table equals the baseline, no alarm from the ledger, decoys intact, UXF and control directories empty, LeakSanitizer silent, process alive. Flavours added: blocking accept with empty wake-ups (control clients attaching, accept4 reporting EAGAIN) with the client in a helper process; connect kept pending by a listener that never answers (tcp.connect_timeout 1.2 s), with every armed XCM timerfd compared across a forked child's xcm_cleanup; control directory names of 84..107 characters.",
    level_note="Single faults (pairs of faults are not enumerated). The heap oracle is LeakSanitizer's reachability at exit per forked case, not allocator statistics.",
    harness=STATES + ["c08.c"],
    stages=[dict(variant="asan", cases={"quick": 3200, "thorough": 48000}, timeout={"quick": 900, "thorough": 3400}, leaks=True)],
    floors={"quick": {"injections_fired": 1100, "rlimit_runs": 400, "fork_runs": 250, "cleanup_children_checked": 200, "owner_wakeup_after_cleanup_ok": 150, "forks_with_control_clients_attached": 40, "burst_runs": 100, "end_state_checks": 3000, "api_failures": 1500,
                      "scenarios_with_traffic": 800, "distinct_nontrivial": 1500},
            "thorough": {"injections_fired": 14000, "rlimit_runs": 5000, "fork_runs": 3000, "distinct_nontrivial": 3200}},
    rule="one evaluation = one scenario run with one fault (or one rlimit value, one burst, one fork step); distinct = distinct (transport, flavour, failing call, index, errno) sites whose injection fired, (transport, flavour, rlimit) and (transport, flavour, fork step) tuples",
    assumptions=["baselines are taken after one warm-up connection per transport (OpenSSL/glibc process-wide state)",
                 "reachable-at-exit library state is not a leak (LeakSanitizer semantics)"])

reg("C13",
    title="name resolution and multi-address connect follow the selected algorithm",
    technique="stub resolver substituted for c-ares at link time (answer list, delivery time, failure, silence chosen per case); loopback topology of accepting XCM servers, refusing addresses and listeners with a full accept queue (no answer); the shim's connect() log (order, time) and the API outcome checked against an oracle computed from list x assignment x algorithm; ASan+UBSan with stack-use-after-return detection",
    level_text="Lists of 1..40 IPv4/IPv6 loopback addresses (v4-mapped and ::1 for IPv6) in any order, each accepting, refusing or not answering, delivered by the stub resolver synchronously, after n process calls, after t ms, never, or as a failure status; algorithms single, sequential, happy_eyeballs; with and without xcm.local_addr; small tcp.connect_timeout and dns.timeout; tcp, tls, utls, btcp, btls; the outcome observed first through finish, send or receive. Oracle: connect() is called only on addresses among the first 32 (single: the first), in list order (per family for happy eyeballs, IPv4 not before 200 ms when IPv6 candidates exist), stopping at the first that accepts; the connection comes up iff a usable address accepts, to that address (xcm_remote_addr), from the configured source; otherwise the errno of the last failed attempt (ECONNREFUSED/ETIMEDOUT), ENOENT for resolver failure or silence beyond dns.timeout, sticky, within time bounds (slack 1 s + 50 %); xcm_server on an unresolvable name fails with ENOENT. A quarter of the cases whose (time-delivered) answer arrives well inside dns.timeout take their first look at the socket only after dns.timeout. Some short lists end in an address to which connect() fails synchronously (ENETUNREACH). Addresses meant to refuse are held by a bound, never listening socket for the length of the case.",
    level_note="c-ares' own ordering and retry logic are outside the judged system (the stub answers instead). Time bounds carry a slack of 1 s + 50 % and are judged on the time the driving loop was turning; a case in which one turn took more than 60 ms (the process was not scheduled for half the shortest timer in play) is counted in cases_not_judged_scheduling_stall and not judged.",
    harness=STATES + ["c13.c"],
    stages=[dict(variant="asan", cases={"quick": 1600, "thorough": 30000}, timeout={"quick": 900, "thorough": 3400})],
    floors={"quick": {"connect_scenarios": 1400, "multi_attempt_or_resolver_fault_cases": 600, "connections_established": 500, "connect_failures_verified": 200, "resolver_fault_cases_ok": 100,
                      "happy_eyeballs_ipv4_delay_checked": 20, "local_addr_verified": 80, "server_unresolvable_cases": 10, "directed_two_family_shapes": 80, "local_address_busy_cases": 15, "distinct_nontrivial": 150},
            "thorough": {"connect_scenarios": 25000, "multi_attempt_or_resolver_fault_cases": 10000, "local_addr_verified": 1500, "server_unresolvable_cases": 200, "distinct_nontrivial": 300}},
    rule="one evaluation = one (list, assignment, resolver behaviour, algorithm, transport, local address, timeouts, first observer) scenario; non-trivial = at least two connect attempts or a resolver fault; distinct = distinct (transport, algorithm, list length class, attempts, outcome, observer, local-addr, family mix) signatures",
    assumptions=["with xcm.local_addr (an IPv4 address) the generated lists are IPv4-only",
                 "for happy eyeballs the failure errno of either track's last attempt is accepted (documentation does not order the tracks)"])

reg("C11",
    title="attribute values take effect and are inherited as documented",
    technique="effect monitor: after every accepted set (creation map, while resolving with a held stub resolver, while the TCP handshake is pending on a no-answer candidate, established, after peer close, accept map, accepted socket) xcm_attr_get and getsockopt()/getsockname() on the connection's kernel descriptor (from the shim's ledger) are compared with the values set; inheritance, blocking-switch, service-admission, creation-only (EACCES + unchanged snapshot) oracles; ASan+UBSan",
    level_text="TCP keepalive/user-timeout attributes (single and in combinations, boundary values) are set at each point of a connection's life on tcp, tls, utls, btcp and btls - including while the resolver is silent and while the first candidate does not answer so that the value must be parked and applied to the socket that finally connects - and are then read back through xcm_attr_get and from the kernel with getsockopt on the descriptor the shim saw XCM create (defaults included). Accepted sockets are compared with their server socket for xcm.service, xcm.blocking and the TLS policy attributes with and without overrides in the accept map; xcm.blocking/xcm_set_blocking/xcm_is_blocking are cross-checked, xcm_fd/xcm_await must refuse with EINVAL in blocking mode; xcm.service values are tried against every transport on server and connect side; twenty creation-only attributes are set after creation on sockets held in six phases and must be refused with EACCES with the full attribute snapshot unchanged; xcm.local_addr is compared with getsockname and with the peer's view. On 40 % of the established / accepted sockets a value that XCM's range check passes but the kernel refuses (keepalive time/interval above 32767, count above 127) is set twice: whatever each call returns, accepted must mean reported and in force, refused must mean unchanged.",
    level_note="Apart from that probe, kernel clamps are avoided by using values the kernel accepts; what the kernel does with the options afterwards (probe timing) is not observed.",
    harness=STATES + ["c11.c"],
    stages=[dict(variant="asan", cases={"quick": 1600, "thorough": 96000}, timeout={"quick": 900, "thorough": 3400})],
    floors={"quick": {"tcp_option_verifications": 600, "kernel_option_reads": 3000, "parked_sets_whose_connection_established": 150, "sets_while_resolving": 80, "sets_while_connecting": 80,
                      "inheritance_checks": 200, "tls_policy_inheritance_checks": 60, "blocking_switch_checks": 1000, "service_checks": 500, "create_only_sets": 1500, "local_addr_checks": 60, "kernel_refused_values_refused": 40, "distinct_nontrivial": 150},
            "thorough": {"tcp_option_verifications": 12000, "parked_sets_whose_connection_established": 3000, "create_only_sets": 30000, "distinct_nontrivial": 300}},
    rule="one evaluation = one scenario of one family (tcp options at one moment, inheritance, blocking switch, service admission, creation-only attributes on one held socket set, local address); distinct = distinct (family, transport, moment/state, which options) signatures",
    assumptions=["xcm.service \"any\" and tls.peer_names are documented to read back differently from what was written and are not compared literally",
                 "tcp.connect_timeout is not probed while the name is being resolved (the implementation keeps it writable until connecting starts)"])

reg("C09",
    title="TLS never fails open",
    technique="differential testing of real handshakes against a policy evaluator computed from generated-PKI metadata (trust root, validity, revocation, EKU vs TLS role, names): per-side outcome monitor (finish, deliveries, bytes reaching the peer's application, errno) over policy x credential-kind x where-set x by-file/by-value cells; ASan+UBSan",
    level_text="One cell = one handshake between XCM endpoints on tls, btls or utls-over-TLS. Policies {tls.auth, tls.check_time, tls.check_crl (valid or expired CRL), tls.verify_peer_name with tls.peer_names or the address host name, trust bundle root A or B, TLS roles reversed via tls.client} are drawn per side and set in the connect map, on the server socket or in an accept map overriding a lax or a strict server socket (credentials and trust anchors included, by file or by value); the presented credentials walk over 15 generated kinds (valid, untrusted root - also with a 3000-byte key identifier or a 1300-character subject -, via trusted/untrusted/revoked/expired intermediate, expired, not yet valid, revoked, wrong name, wildcard name *.domain, serverAuth-only, clientAuth-only). For each side whose policy does not admit the peer: xcm_finish never 0, nothing delivered, none of its application bytes at the peer (both sides send speculatively throughout), errno EPROTO. Cells admitted by both sides must establish and carry a message each way (shortfall counted, floored). Five kinds of inconsistent policy must be refused with EINVAL at creation. Inconsistent policies are also split: the demanding half on the server socket, tls.auth=false in the accept map; or names expected from a host name in the address; name verification without names is also tried with an empty tls.peer_names value.",
    level_note="OpenSSL's path validation is trusted; the evaluator models what XCM asks of it. Cells whose verdict would depend on anything else (signature algorithms, path length) are not generated.",
    harness=STATES + ["c09.c"],
    stages=[dict(variant="asan", cases={"quick": 3000, "thorough": 80000}, timeout={"quick": 900, "thorough": 3400})],
    floors={"quick": {"cells": 2500, "cells_client_must_reject": 500, "cells_server_must_reject": 500, "rejections_verified": 1000, "admitted_connections_verified": 500, "invalid_combinations_tried": 80, "invalid_combinations_with_empty_name_list": 2, "distinct_nontrivial": 800},
            "thorough": {"cells": 60000, "rejections_verified": 30000, "admitted_connections_verified": 15000, "distinct_nontrivial": 5000}},
    rule="one evaluation = one cell (one handshake, or one inconsistent creation); non-trivial = at least one side must reject; distinct = distinct (transport, both policies, both credential kinds, where the server policy was set, role reversal, expected verdicts) cells",
    assumptions=["the peer's chain is what its tls.cert item carries plus the verifier's bundle; with check_crl a CRL of every issuer is supplied",
                 "TLS 1.3: a client may legitimately complete before the server has judged its certificate: verdicts are per side"])

reg("C18",
    title="each TLS connection uses the credentials designated at that moment",
    technique="history monitor: the harness records what was designated (attributes first, else the XCM_TLS_CERT directory as it stands) at each connect/server/accept call of a random history of credential updates and compares it with the identity each side sees of its peer and with the trust decision; boundary-shift twin configurations against the context cache; heap steady state and same-size/inode/mtime rewrite probe for context release; malformed material => EPROTO; ASan+UBSan",
    level_text="Random histories over three credential directories and a store of twelve identities under two roots: rewrite in place (padded to one size, same inode), rename over, symlink flip, XCM_TLS_CERT switch, per-socket attributes by file and by value on connect, server and accept, interleaved with opening up to 12 connections on up to 6 servers, re-checking established ones (message each way, unchanged peer identity) and closing. Each new connection must come up iff the bundles designated at the two calls admit each other, and tls.peer.cert.subject.cn on either side must name the identity designated for the other side's call. Twin by-value configurations with equal concatenated bytes but shifted item boundaries (key|tc, cert|key, tc|crl) are opened while the first is kept alive: the second must behave as it does alone. Release: heap growth per cycle over cycles with never-seen credentials, and a file rewritten with identical size, inode and mtime after everything was closed must be read again. Nine kinds of missing/empty/garbled/mismatching material must fail with EPROTO.",
    level_note="A rewrite is made distinguishable by mtime (the kernel's coarse clock has millisecond granularity); which directory a server created under an earlier XCM_TLS_CERT uses after the variable changed is not judged.",
    harness=STATES + ["c18.c"],
    stages=[dict(variant="asan", cases={"quick": 480, "thorough": 12000}, timeout={"quick": 900, "thorough": 3400})],
    floors={"quick": {"identities_verified": 800, "designated_rejections_verified": 150, "established_connections_rechecked": 100, "updates_rewrite_in_place": 150, "updates_rename_over": 150, "updates_symlink_flip": 150,
                      "updates_env_switch": 100, "accept_overrides": 300, "twin_pairs_tried": 80, "release_probes_verified": 30, "malformed_material_cases": 300, "distinct_nontrivial": 8},
            "thorough": {"identities_verified": 40000, "twin_pairs_tried": 1800, "release_probes_verified": 800, "distinct_nontrivial": 8}},
    rule="one evaluation = one history of 28 (thorough 60) steps, one twin pair, one release experiment or one malformed-material sweep; distinct = distinct (family, transport, twin kind)",
    assumptions=["an in-place rewrite differs from the previous content in mtime (the harness waits for a new clock tick)"])

reg("C14",
    title="the control interface is passive and safe",
    technique="differential monitor: replies obtained through a raw SOCK_SEQPACKET control client and through libxcmctl are compared with xcm_attr_get / xcm_attr_get_all taken in-process in the same quiescent instant; malformed-request generator; every reply byte scanned for the body of tls.key; owner's data path re-checked; directory listing after close; ASan+UBSan in the owner",
    level_text="Owners are the server, client and accepted sockets of every transport with the control interface on, in four flavours (plain, by-value chain credentials of several kB, peer certificates with 1/12/40/80 subject alternative names, credential paths beyond 100 characters). Sessions: raw sessions starting with get_all or with get (both orders), named gets over present, absent, sensitive, oversized and syntactically odd names; libxcmctl sessions in a helper thread (xcmc_attr_get and xcmc_attr_get_all in both orders); eight kinds of malformed request (short, one byte short, too long, unknown type, a response as request, unterminated 64-byte name, no NUL in the whole message, random bytes); storms of 3-5 simultaneous sessions (limit is 2) half of which leave before the reply. Every reply is compared with the in-process value (type, length, bytes, or the same errno), get_all replies must be typed get_all_attr_cfm, hold no entry longer than its field, no tls.key, and omit nothing that fits unless full; a message is sent over the owner's connection after every fourth round; the control directory must be empty after close. Also: pipelined sessions (14-27 requests written before the first reply is read, replies checked by position) and an event-driven owner (calls only when xcm_fd is readable) that must be woken for a newcomer after one of two sessions left.",
    level_note="For utls the control sockets belong to sub-sockets that the public API cannot address: only the generic rules (reply type, key scan, survival, data path, files) apply there.",
    harness=STATES + ["c14.c"],
    stages=[dict(variant="asan", cases={"quick": 640, "thorough": 16000}, timeout={"quick": 900, "thorough": 3400})],
    floors={"quick": {"owners": 500, "wellformed_requests": 5000, "get_replies_verified": 800, "get_rejections_verified": 400, "get_all_replies_verified": 500, "libxcmctl_sessions": 500, "libxcmctl_get_all_ok": 300,
                      "malformed_requests": 1200, "session_storms": 500, "slot_reuse_sessions": 250, "data_path_checks": 1000, "control_dirs_empty_after_close": 500, "distinct_nontrivial": 20},
            "thorough": {"owners": 14000, "wellformed_requests": 300000, "malformed_requests": 80000, "distinct_nontrivial": 20}},
    rule="one evaluation = one owner (three sockets of one transport and flavour) on which 14 (thorough 40) rounds of control sessions are run; distinct = distinct (transport, flavour, SAN count)",
    assumptions=["volatile attributes (tcp.rtt, tcp.segs_*, counters) are compared by type and length only"])

reg("C15",
    title="threads using different sockets do not interfere",
    technique="ThreadSanitizer (happens-before race detector) on library + workload: 8-16 threads each owning its sockets (all transports, shared and per-thread TLS credentials, >100-socket bursts, attribute reads, address helpers, log switch, hand-over through a mutex-protected queue); per-thread delivery checks; reports deduplicated by outermost in-repo frames",
    level_text="Library and workload are compiled with -fsanitize=thread. Each case starts 8-16 threads; every thread repeatedly creates a server and a connection pair on a random transport (ux, uxf, tcp, tls, utls, btcp, btls), verifies messages both ways, reads all attributes, and closes - or hands the live connection to another thread through a mutex-protected queue, which then uses and closes it. TLS pairs alternate between the shared credential directory (context cache hits, last put) and per-thread by-value credentials (misses); bursts of 110 servers plus connects per thread create and destroy the process-wide always-readable eventfds; address parsing/validation and the console-log switch run concurrently. Every ThreadSanitizer report whose stacks contain a repository frame is a violation; interceptor events raised from inside uninstrumented libcrypto/libssl/libcares are suppressed (called_from_lib). Every other case runs with the control interface on, two threads then act as control clients (libxcmctl) towards sockets owned by the others; threads also connect to a host name (one resolver channel per socket, concurrently).",
    level_note="TSan sees the interleavings that occurred and the synchronisation it intercepts; no report in N runs is not race freedom. OpenSSL and c-ares internals are trusted.",
    harness=COMMON + ["vpki.c", "c15.c"],
    stages=[dict(variant="tsan", cases={"quick": 160, "thorough": 1600}, timeout={"quick": 900, "thorough": 3400}, env={"VERIF_TSAN": "1"})],
    floors={"quick": {"threads_run": 1500, "connections": 6000, "messages_verified": 25000, "sockets_handed_over": 800, "socket_bursts": 800, "tls_pairs_shared_credentials": 800, "tls_pairs_private_credentials": 800,
                      "overlapping_creations": 4000, "overlapping_tls_creations": 1000, "distinct_nontrivial": 5},
            "thorough": {"connections": 60000, "overlapping_creations": 40000, "distinct_nontrivial": 5}},
    rule="one evaluation = one multi-threaded run; non-trivial = at least two threads were inside socket creation at the same time (counted by the workload around its own calls); distinct = distinct thread counts",
    assumptions=["TSan suppressions: called_from_lib for libcrypto.so.3, libssl.so.3, libcares.so.2 (uninstrumented)"])

reg("C20",
    title="xcmrelay is transparent",
    technique="end-to-end delivery oracle (unique message/byte contents, sender ledgers) across the real xcmrelay process (ASan build) for every leg pair of equal service type; close-order oracle; relay liveness (waitpid, serves again); LD_PRELOAD shim in the relay producing partial-then-refused writes",
    level_text="The relay binary built from the working tree runs as a child process between 1-8 harness clients and a harness server on every pair of legs of equal service (ux, uxf, tcp, tls, utls; btcp, btls). Both ends of every relayed connection send unique-content messages (1 byte to 65535 bytes) at the same time, in mixed, burst-then-close and stalled-reader patterns; then one side finishes and closes and the other must receive everything that side had accepted, then the orderly close; deliveries in both directions are checked against the senders' ledgers (order, exactly once, bytes). The relay must still run afterwards and relay a fresh connection. In half of the cases the relay runs with an LD_PRELOAD shim that accepts TCP writes in part and refuses the next one, as a full kernel buffer does in the middle of a frame. Sanitizer reports of the relay process are collected from its stderr. Every case process uses loopback addresses of its own for the relay's front and back; in a quarter of the cases the server behind the relay stops listening for a moment while its connections live (a newcomer is dropped, nothing else may change).",
    level_note="Timing of the two sides is what the scheduler and the kernel produce; the relay's internal event order is not controlled.",
    harness=STATES + ["c20.c"], preload=["vpreload.c"],
    stages=[dict(variant="asan", cases={"quick": 480, "thorough": 36000}, timeout={"quick": 900, "thorough": 3400})],
    floors={"quick": {"relayed_connections": 600, "close_order_verified": 400, "messages_relayed": 15000, "stalled_reader_cases": 80, "relay_served_again": 300, "distinct_nontrivial": 150},
            "thorough": {"relayed_connections": 15000, "close_order_verified": 10000, "distinct_nontrivial": 400}},
    rule="one evaluation = one relay process with 1-8 relayed connections; distinct = distinct (leg pair, single/multiple connections, pattern, shortened writes, closing side) signatures",
    assumptions=["tcp.user_timeout is left at its default in the relay; stalls are kept below one second"])
