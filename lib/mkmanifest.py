#!/usr/bin/env python3
"""Regenerate /verif/MANIFEST.json from lib/registry.py (single source of truth)."""
import json, os, sys
ROOT = os.path.dirname(os.path.dirname(os.path.abspath(__file__)))
sys.path.insert(0, os.path.join(ROOT, "lib"))
import registry

ALL = ["C%02d" % i for i in range(1, 21)]
checks = []
for pid in ALL:
    c = registry.CHECKS.get(pid)
    if not c or c.get("unregistered"):
        continue
    checks.append({
        "property_id": pid,
        "quick_cmd": "./vcheck run %s --tier quick" % pid,
        "thorough_cmd": "./vcheck run %s --tier thorough" % pid,
        "evidence_file": "/verif/evidence/%s.json" % pid,
        "replay_cmd_template": "./vcheck replay {path}",
        "engine": "vcheck",
        "level_claimed": {"category": c["level"], "text": c["level_text"], "design_ref": c.get("design_ref", "DESIGN.md section 3, " + pid)},
        "level_note": c["level_note"],
        "technique": c["technique"],
    })
na = []
for pid in ALL:
    c = registry.CHECKS.get(pid)
    if not c or c.get("unregistered"):
        na.append({"property_id": pid, "reason": registry.NOT_CLAIMED.get(pid, "check designed in DESIGN.md section 3 but not yet built and calibrated; not claimed until it is silent on the unchanged tree")})
m = {
    "version": 1,
    "setup_cmd": "./vcheck setup",
    "hooks": {
        "guard": "XCM_VERIF",
        "enable": "vcheck compiles every source file of libxcm, libxcmctl and xcmrelay from /repo's working tree with -DXCM_VERIF into /verif/build/<check>/<variant>/ (own gcc lines, no autotools)",
        "baseline_off_cmd": "cd /repo && make -j16 && make -k check VERBOSE=1",
        "source_commits": registry.HOOK_COMMITS,
        "add_only": True,
    },
    "engines": [{"name": "vcheck", "path": "/verif/vcheck", "serves_properties": [c["property_id"] for c in checks],
                 "kind_free_text": "python driver: rebuilds libxcm from the working tree per sanitizer variant, builds the C harness of the property, fans out forked worker processes, aggregates monitor events, matches violation keys against known_findings.json, writes evidence"}],
    "checks": checks,
    "not_applicable": na,
    "notes": "Technique family: runtime monitoring and sanitizers only. Every check decides its property by observing executions of the real code (ASan+UBSan, TSan, LSan builds) with monitors written for this task; see DESIGN.md.",
}
json.dump(m, open(os.path.join(ROOT, "MANIFEST.json"), "w"), indent=1)
print("MANIFEST.json: %d checks, %d not claimed" % (len(checks), len(na)))
