#!/bin/bash
# usage: tools/mutall.sh [out-file]  -- runs every hand-made mutant (mutants/<check>-*.patch) and every saved seed (seeded/<id>/patch.diff, against the
# checks named in its meta.json detected_by) through the quick tier; one line per run: "<name> <check> exit=<rc>"   (exit=0: every named check caught it; exit=1: missed)
out=${1:-/verif/out/mutall.txt}; mkdir -p $(dirname $out); : > $out
cd /verif
for m in mutants/*.patch; do
  b=$(basename $m .patch); id=$(echo ${b%%-*} | tr a-z A-Z)
  tools/mutcheck.sh $id $m quick 1 >/dev/null 2>&1; echo "$b $id exit=$?" >> $out
done
for d in seeded/*/; do
  s=$(basename $d); [ -f $d/meta.json ] || continue
  for id in $(python3 -c "import json,sys; print(' '.join(json.load(open('$d/meta.json')).get('detected_by',{}).keys()))"); do
    tools/mutcheck.sh $id $d/patch.diff quick 1 >/dev/null 2>&1; echo "$s $id exit=$?" >> $out
  done
done
echo finished >> $out
