#!/usr/bin/env python3
"""seedsave.py: copy verified seeded changes from /tmp/seed-out into /verif/seeded/<prop>-<m>/ with meta.json"""
import json, os, shutil, sys, re
SEEDS = json.load(open('/verif/seeded/index.json'))
for sid, meta in SEEDS.items():
    prop, m = sid.split('-')
    src = '/tmp/seed-out/%s/%s' % (prop, m)
    dst = '/verif/seeded/%s' % sid
    if not os.path.isdir(src):
        continue
    os.makedirs(dst, exist_ok=True)
    for f in os.listdir(src):
        if f in ('patch.diff', 'demo.c', 'demo.sh', 'RUN.txt', 'NOTES.md', 'VERIFY.txt', 'RETEST.txt', 'shim.c', 'preload.c') or (f.endswith('.c') or f.endswith('.sh') or f.endswith('.py')) and os.path.getsize(os.path.join(src, f)) < 200000:
            shutil.copy(os.path.join(src, f), os.path.join(dst, f))
    ver = ''
    vp = os.path.join(src, 'VERIFY.txt')
    if os.path.exists(vp):
        ver = [l for l in open(vp, errors='replace').read().split('\n') if l.startswith('RESULT') or l.startswith('demo on')]
    meta = dict(meta)
    meta['id'] = sid
    meta['property'] = prop
    meta['verification_log'] = ver
    json.dump(meta, open(os.path.join(dst, 'meta.json'), 'w'), indent=1)
print("saved", len(SEEDS))
