#!/usr/bin/env python3
"""seedprompt2.py <PROP> <round>: second-round prompt - like seedprompt.py, plus the list of changes already produced for that property (to be avoided), output dirs m3/m4."""
import json, sys, subprocess
pid = sys.argv[1]
base = subprocess.run([sys.executable, '/verif/tools/seedprompt.py', pid], capture_output=True, text=True).stdout
idx = json.load(open('/verif/seeded/index.json'))
used = [v['breaks'] for k, v in sorted(idx.items()) if k.startswith(pid + '-')]
A = sys.argv[2] if len(sys.argv) > 2 else '3'; B = sys.argv[3] if len(sys.argv) > 3 else '4'
base = base.replace('/m1', '/m' + A).replace('/m2', '/m' + B).replace('mN/', 'mN/ (N = %s, %s)' % (A, B)).replace('N in {1,2}', 'N in {%s,%s}' % (A, B))
extra = "\n\nEarlier rounds already produced the following changes for this property; yours must be DIFFERENT from them in mechanism and location (another function, another clause of the property, another trigger), and should look for corners that a test harness built around the obvious scenarios would not reach:\n" + "\n".join("  - " + u for u in used) + "\n"
print(base.replace("Your job: produce TWO", extra + "\nYour job: produce TWO"))
