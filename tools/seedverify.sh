#!/bin/bash
# usage: tools/seedverify.sh <prop> <mN>   -- confirms a seeded change in its scratch worktree /tmp/wt-<prop>:
# applies to current main, compiles, existing suite does not get worse, demo passes on the original and fails on the change.
# Writes /tmp/seed-out/<prop>/<mN>/VERIFY.txt
prop=$1; m=$2; wt=/tmp/wt-$prop; sd=/tmp/seed-out/$prop/$m; out=$sd/VERIFY.txt
exec > $out 2>&1
set -x
cd $wt || exit 9
git checkout -q -- . ; git checkout -q --detach main || exit 9
[ -f Makefile ] || (./autogen.sh >/dev/null 2>&1 && ./configure >/dev/null)
make -j8 >/dev/null 2>&1 || { echo "RESULT build-orig-failed"; exit 1; }
build_demo() {
  if [ -f $sd/demo.c ]; then gcc -O1 -rdynamic -I$wt/include $sd/demo.c -o $sd/demo.bin -L$wt/.libs -lxcm -lxcmctl -lpthread -lssl -lcrypto -ldl -Wl,-rpath,$wt/.libs || return 1; fi; }
run_demo() {
  if [ -f $sd/demo.sh ]; then (cd $sd && timeout 300 bash ./demo.sh $wt); else (cd $sd && timeout 300 ./demo.bin); fi; }
build_demo || { echo "RESULT demo-build-failed"; exit 1; }
o=0; for i in 1 2; do run_demo >/dev/null 2>&1; r=$?; echo "demo on original: exit $r"; [ $r -eq 0 ] || o=1; done
git apply $sd/patch.diff || { echo "RESULT patch-does-not-apply"; exit 1; }
make -j8 2>&1 | grep -i "warning" | head
make -j8 >/dev/null 2>&1 || { echo "RESULT build-mutant-failed"; git checkout -q -- .; exit 1; }
build_demo
mu=0; for i in 1 2; do run_demo > $sd/demo.mut.$i.log 2>&1; r=$?; echo "demo on mutant: exit $r"; [ $r -ne 0 ] || mu=1; done
make -j8 xcmtest >/dev/null 2>&1
./xcmtest -c -v -p 8 2>&1 | sed 's/\x1b\[[0-9;]*m//g' | grep -a "FAILED\|TIMED OUT\|tests run" > $sd/suite.mut.txt
cat $sd/suite.mut.txt
bad=$(grep -a "FAILED\|TIMED OUT" $sd/suite.mut.txt | grep -v "xcm:dns\|dns_timeout\|dns_algorithm_smoke_test\|dns_multiple_address_probing\|tcp_connect_timeout\|tls_invalid_credential_values\|net_ns_switch" | wc -l)
git checkout -q -- . ; make -j8 >/dev/null 2>&1
for n in $(ip netns list 2>/dev/null | awk '{print $1}'); do ip netns delete $n 2>/dev/null; done
echo "RESULT demo_orig_ok=$((1-o)) demo_mutant_fails=$((1-mu)) suite_new_failures=$bad"
