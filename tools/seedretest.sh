#!/bin/bash
# usage: tools/seedretest.sh <prop> <mN>   -- re-runs, alone and twice, the tests that failed in the loaded full-suite run of a seeded change
# (beyond the ones that fail offline anyway); appends to /tmp/seed-out/<prop>/<mN>/RETEST.txt
prop=$1; m=$2; wt=/tmp/wt-$prop; sd=/tmp/seed-out/$prop/$m
tests=$(grep -a "FAILED\|TIMED OUT" $sd/suite.mut.txt | grep -v "xcm:dns\|dns_timeout\|dns_algorithm_smoke_test\|dns_multiple_address_probing\|tcp_connect_timeout\|tls_invalid_credential_values\|net_ns_switch" | sed 's/: .*//')
[ -z "$tests" ] && { echo "nothing to retest" > $sd/RETEST.txt; exit 0; }
cd $wt || exit 9
git checkout -q -- . ; git apply $sd/patch.diff || exit 9
make -j8 >/dev/null 2>&1; make -j8 xcmtest >/dev/null 2>&1
: > $sd/RETEST.txt
for i in 1 2; do ./xcmtest -c -v $tests 2>&1 | sed 's/\x1b\[[0-9;]*m//g' | grep -a "FAILED\|TIMED OUT\|tests run" >> $sd/RETEST.txt; done
git checkout -q -- . ; make -j8 >/dev/null 2>&1
for n in $(ip netns list 2>/dev/null | awk '{print $1}'); do ip netns delete $n 2>/dev/null; done
cat $sd/RETEST.txt
