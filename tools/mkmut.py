#!/usr/bin/env python3
"""mkmut.py <name> <path> <old> <new>: write /verif/mutants/<name>.patch replacing old by new in /repo's HEAD version of path"""
import subprocess, sys, os, tempfile
def mk(name, path, old, new):
    src = subprocess.run(['git','-C','/repo','show','HEAD:'+path],capture_output=True,text=True,check=True).stdout
    assert old in src, "pattern not found for "+name
    d = tempfile.mkdtemp()
    a = os.path.join(d,'a'); b = os.path.join(d,'b')
    open(a,'w').write(src); open(b,'w').write(src.replace(old,new,1))
    out = subprocess.run(['diff','-u',a,b],capture_output=True,text=True).stdout
    lines = out.split('\n'); lines[0] = '--- a/'+path; lines[1] = '+++ b/'+path
    open('/verif/mutants/%s.patch'%name,'w').write('\n'.join(lines))
if __name__ == '__main__':
    mk(*sys.argv[1:5])
