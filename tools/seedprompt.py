#!/usr/bin/env python3
"""seedprompt.py <PROP>: print the prompt given to an independent sub-agent that seeds a property-breaking change (it sees the property text only, nothing from /verif)."""
import json, sys
pid = sys.argv[1]
p = [json.loads(l) for l in open('/verif/properties.jsonl') if json.loads(l)['id'] == pid][0]
print(f"""You are helping to evaluate a verification effort for the C library Ericsson/xcm (Linux IPC library with pluggable transports: UX, TCP, TLS, UTLS, byte-stream variants, non-blocking state machines, message framing).

You have your own scratch git worktree of the repository at /tmp/wt-{pid} (detached at the current main). Work ONLY there and in /tmp/seed-out/{pid}/ . Do not read or touch /verif or /repo. The sandbox has no network.

Build: cd /tmp/wt-{pid} && ./autogen.sh >/dev/null 2>&1; ./configure >/dev/null && make -j8 >/dev/null 2>&1 . The existing test suite is ./xcmtest (run e.g. `./xcmtest -c -v -p 8`; a few DNS / timeout / netns tests fail offline even on the unmodified tree: xcm:dns*, dns_timeout*, dns_algorithm_smoke_test, dns_multiple_address_probing, tcp_connect_timeout, tls_invalid_credential_values, net_ns_switch - ignore those). Run it once unmodified first so you know the baseline.

This semantic property of xcm is supposed to hold:

  {p['title']}
  {p['statement']}
  (quantified: {p['quantifier']['text']})

Your job: produce TWO different, realistic source changes (the kind of slip a maintainer could make: an off-by-one, a dropped or misplaced check, a wrong operator, a state not reset, a reordered pair of statements, two sites that each look fine alone) to the library code of xcm, each of which
  (a) still compiles without new warnings,
  (b) still passes the existing test suite (apart from the always-failing tests named above), and
  (c) BREAKS the property above - but only when something specific happens: a particular interleaving, a fault or short read/write at a particular point, a multi-step sequence of operations, an unusual input or parameter value, a particular transport or connection phase. Do NOT make changes that ordinary use would expose at once (e.g. every message lost), and do not touch tests, build files or documentation.
The two changes should be in different functions/files and break the property in different ways.

For each change N in {{1,2}} write into /tmp/seed-out/{pid}/mN/ :
  - patch.diff   : `git diff` of the change against the worktree's HEAD (must apply with `git apply` to a clean checkout)
  - demo.c (a small C program using the public API in include/, linked against the built library; it may define interposing wrappers for libc calls such as send/recv/poll in the executable itself and must be built with: gcc -O1 -rdynamic -I/tmp/wt-{pid}/include demo.c -o demo.bin -L/tmp/wt-{pid}/.libs -lxcm -lxcmctl -lpthread -lssl -lcrypto -ldl -Wl,-rpath,/tmp/wt-{pid}/.libs ) OR demo.sh (bash, takes the worktree path as $1). The demonstration must exit 0 on the unmodified tree and non-zero with the change applied, deterministically (run each twice), and finish within 2 minutes.
  - NOTES.md     : which property clause it breaks, what is needed for the breakage to manifest, and why the existing tests do not notice.
Leave the worktree clean (git checkout -- .) and rebuilt unmodified when you are done. Verify everything yourself before reporting: patch applies, builds without new warnings, suite has no new failures, demo passes without and fails with the change. In your final answer give, per change, one paragraph: file/function changed, what breaks, what it needs to manifest, and the verification you ran with its results.""")
