#!/bin/bash
# usage: tools/mutcheck.sh <check-id[,check-id...]> <patch-file> [tier] [seed]
# Applies a patch to a scratch copy of /repo's HEAD and runs the given checks against it.
set -u
ids=$1; patch=$(readlink -f "$2"); tier=${3:-quick}; seed=${4:-1}
d=$(mktemp -d /tmp/xcm-mut-XXXXXX)
git -C /repo archive HEAD | tar -x -C "$d"
if ! (cd "$d" && patch -p1 -s < "$patch"); then echo "PATCH DOES NOT APPLY"; rm -rf "$d"; exit 3; fi
rc=0
for id in ${ids//,/ }; do
  out=$(cd /verif && VERIF_REPO="$d" VERIF_SEED=$seed ./vcheck run "$id" --tier "$tier" 2>&1)
  r=$?
  echo "$out" | grep -E "VIOLATION|key=|verdict=|INCONCLUSIVE|KNOWN" | cut -c1-260 | head -12
  echo "== $id on $(basename "$patch"): exit $r"
  [ $r -eq 1 ] || rc=1
done
rm -rf "$d"
# evidence files were rewritten by the mutant runs: restore the committed ones
git -C /verif checkout -- evidence 2>/dev/null
exit $rc
